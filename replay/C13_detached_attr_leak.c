/* replay of the C13 counterexample on the real library: threads created with the detach-state attribute must be reaped
 * (their record recycled) when they finish; one worker, N create/finish cycles must run in bounded memory. */
#include <stdio.h>
#include <stdlib.h>
#include <string.h>
#include <myth/myth.h>
static volatile int done;
static void *body(void *a){ (void)a; done = 1; return 0; }
static long rss_kb(void){ FILE *f = fopen("/proc/self/statm", "r"); long a = 0, r = 0; if (f) { fscanf(f, "%ld %ld", &a, &r); fclose(f); } return r * 4; }
int main(void){
  int i, n = 20000; myth_thread_attr_t at; myth_thread_attr_init(&at); myth_thread_attr_setdetachstate(&at, 1);
  myth_thread_t first = 0, id; int reused = 0;
  for (i = 0; i < 100; i++) { done = 0; myth_create_ex(&id, &at, body, 0); while (!done) myth_yield(); }
  long r0 = rss_kb();
  for (i = 0; i < n; i++) { done = 0; myth_create_ex(&id, &at, body, 0); if (i == 0) first = id; else if (id == first) reused = 1; while (!done) myth_yield(); }
  long r1 = rss_kb();
  printf("%d detached-by-attribute threads: resident set grew by %ld KB, first record %s\n", n, r1 - r0, reused ? "was recycled" : "was never recycled");
  int ok = (r1 - r0) < 8192;
  printf("%s\n", ok ? "PROPERTY HOLDS (bounded memory)" : "PROPERTY VIOLATED (records leak)");
  return ok ? 0 : 1;
}
