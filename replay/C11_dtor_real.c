/* replay of the C11 counterexample against the real library build: keys K0 and K1 (argv) hold values with destructors */
#include <stdio.h>
#include <stdlib.h>
#include <myth/myth.h>
static int calls[1024]; static void *seen[1024];
static myth_key_t keys[1024]; static int K0, K1; static int v0, v1;
#define D(i) static void d##i(void *v){ calls[i]++; seen[i] = v; }
D(0) D(1)
static void *body(void *a){ (void)a; myth_setspecific(keys[K0], &v0); myth_setspecific(keys[K1], &v1); return 0; }
int main(int argc, char **argv){
  K0 = argc > 1 ? atoi(argv[1]) : 39; K1 = argc > 2 ? atoi(argv[2]) : 15;
  int i, n = (K0 > K1 ? K0 : K1) + 1;
  for (i = 0; i < n; i++) myth_key_create(&keys[i], i == K0 ? d0 : i == K1 ? d1 : 0);
  myth_thread_t t = myth_create(body, 0); myth_join(t, 0);
  int ok = calls[0] == 1 && seen[0] == &v0 && calls[1] == 1 && seen[1] == &v1;
  printf("key %d: destructor calls=%d value ok=%d; key %d: destructor calls=%d value ok=%d => %s\n", K0, calls[0], seen[0] == &v0, K1, calls[1], seen[1] == &v1, ok ? "PROPERTY HOLDS" : "PROPERTY VIOLATED");
  return ok ? 0 : 1;
}
