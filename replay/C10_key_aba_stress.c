/* real-library demonstration of the C10 counterexample class (ABA on the lock-free key free list): several workers create and
 * delete keys concurrently; a key must never be live in two holders at once, and the process must not crash. */
#include <stdio.h>
#include <stdlib.h>
#include <myth/myth.h>
static volatile int owner[4096]; static volatile long dups, ops;
static void *body(void *a){
  long id = (long)a + 1, i; myth_key_t k[3];
  for (i = 0; i < 200000 && !dups; i++) {
    int n = 0, j;
    for (j = 0; j < 3; j++) if (myth_key_create(&k[n], 0) == 0) {
      if (k[n] < 0 || k[n] >= 4096 || __sync_lock_test_and_set(&owner[k[n]], (int)id) != 0) { __sync_fetch_and_add(&dups, 1); return 0; }
      n++; }
    for (j = 0; j < n; j++) { owner[k[j]] = 0; __sync_synchronize(); myth_key_delete(k[j]); }
    __sync_fetch_and_add(&ops, 1);
    if ((i & 63) == 0) myth_yield();
  }
  return 0;
}
int main(void){
  long i; myth_thread_t t[8];
  for (i = 0; i < 8; i++) t[i] = myth_create(body, (void*)i);
  for (i = 0; i < 8; i++) myth_join(t[i], 0);
  printf("%ld create/delete rounds, %ld duplicate hand-outs\n", ops, dups);
  printf("%s\n", dups ? "PROPERTY VIOLATED (same key live in two holders)" : "PROPERTY HOLDS on this run");
  return dups ? 1 : 0;
}
