#include <myth/myth.h>
#include <mtbb/parallel_for.h>
#include <stdio.h>
static int hits;
int main(){ mtbb::parallel_for(3L, 3L, [](long i){ (void)i; __sync_fetch_and_add(&hits, 1); }); mtbb::parallel_for(5L, 2L, [](long i){ (void)i; __sync_fetch_and_add(&hits, 1); });
  mtbb::parallel_for(0L, 7L, 2L, [](long i){ (void)i; __sync_fetch_and_add(&hits, 1); }); printf("hits=%d (expect 4)\n", hits); return hits == 4 ? 0 : 1; }
