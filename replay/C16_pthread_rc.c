/* replay of the C16 counterexamples on the real library: a determinate pthread program that checks return codes.
 * build twice: against the system pthreads, and with the calls redirected to MassiveThreads (@myth-ld.opts -lmyth-ld). */
#include <pthread.h>
#include <stdio.h>
#include <errno.h>
static pthread_spinlock_t sl; static pthread_mutex_t m = PTHREAD_MUTEX_INITIALIZER; static int counter;
static void *body(void *a){ int i; (void)a; for (i = 0; i < 20000; i++) { pthread_mutex_lock(&m); counter++; if (pthread_mutex_unlock(&m) != 0) return (void*)1; } return 0; }
static void *tbody(void *a){ return a; }
int main(void){
  int bad = 0, r; void *res;
  pthread_spin_init(&sl, 0);
  r = pthread_spin_trylock(&sl); printf("spin_trylock on a free lock -> %d (POSIX: 0)\n", r); if (r != 0) bad = 1;
  r = pthread_spin_trylock(&sl); printf("spin_trylock on a held lock -> %d (POSIX: EBUSY=%d)\n", r, EBUSY); if (r != EBUSY) bad = 1;
  pthread_spin_unlock(&sl);
  r = pthread_spin_lock(&sl); printf("spin_lock -> %d (POSIX: 0)\n", r); if (r != 0) bad = 1;
  pthread_spin_unlock(&sl);
  pthread_t t[4]; int i; long unlock_bad = 0;
  for (i = 0; i < 4; i++) pthread_create(&t[i], 0, body, 0);
  for (i = 0; i < 4; i++) { pthread_join(t[i], &res); unlock_bad += (long)res; }
  printf("mutex_unlock returned non-zero in %ld of 4 threads (POSIX: 0), counter=%d\n", unlock_bad, counter); if (unlock_bad) bad = 1;
  pthread_attr_t at; pthread_attr_init(&at); pthread_t x;
  r = pthread_create(&x, &at, tbody, (void*)7); if (r == 0) { pthread_join(x, &res); printf("create with attribute object: joined value %ld\n", (long)res); if ((long)res != 7) bad = 1; } else { printf("create with attr failed %d\n", r); bad = 1; }
  printf("%s\n", bad ? "PROGRAM RESULT DIFFERS FROM POSIX" : "PROGRAM RESULT AS POSIX");
  return bad;
}
