#!/usr/bin/env python3
"""engine C: z3 symbolic execution of the REAL inline-asm context-switch templates (C03).
usage (under python3-vt):  asmsmt.py <probe.ll> <out.json> [njobs]
The templates + constraint strings are read from the LLVM IR clang produced for a probe TU that expands the
real macros myth_swap_context_i / _withcall_i / myth_set_context_i / _withcall_i of src/myth_context_func.h."""
import re, sys, time, json, os
from concurrent.futures import ProcessPoolExecutor
from z3 import *

GPR = ['rax', 'rbx', 'rcx', 'rdx', 'rsi', 'rdi', 'rbp', 'rsp', 'r8', 'r9', 'r10', 'r11', 'r12', 'r13', 'r14', 'r15']
CONS = {'{ax}': 'rax', '{cx}': 'rcx', '{dx}': 'rdx', '{si}': 'rsi', '{di}': 'rdi', '{bx}': 'rbx'}
CALLEE_SAVED = ['rbx', 'rbp', 'r12', 'r13', 'r14', 'r15']
CALLER_SAVED = ['rax', 'rcx', 'rdx', 'rsi', 'rdi', 'r8', 'r9', 'r10', 'r11']

def parse(t, cons):
    outs = []; ins = []; clob = []
    for c in cons.split(','):
        if c.startswith('='): outs.append(CONS[c.lstrip('=&')])
        elif c.startswith('~'): clob.append(c[2:-1])
        elif c.isdigit(): ins.append(outs[int(c)])
        else: raise Exception('unsupported constraint ' + c)
    ops = outs + ins
    prog = []
    for line in t.replace('\\0A', '\n').replace('\\09', ' ').split('\n'):
        line = line.strip()
        if not line: continue
        line = line.replace('$$', '\x01'); line = re.sub(r'\$(\d+)', lambda m: '%' + ops[int(m.group(1))], line).replace('\x01', '$')
        prog.append(line)
    return dict(prog=prog, outs=outs, ins=ins, clob=clob)

def load(llpath):
    ll = open(llpath).read()
    tpls = re.findall(r'asm sideeffect "((?:[^"\\]|\\.)*)", "([^"]*)"', ll)
    T = {}
    for t, c in tpls:
        if 'ud2' in t or not t.strip(): continue
        p = parse(t, c); txt = ' '.join(p['prog'])
        has_push = 'push' in txt; has_call = re.search(r'\bcall\b', txt) is not None
        name = ('swap_withcall' if has_call else 'swap') if has_push else ('set_withcall' if has_call else 'set')
        if name in T and T[name]['prog'] != p['prog']: raise Exception('two different templates classified as ' + name)
        T[name] = p
    missing = [n for n in ('swap', 'swap_withcall', 'set', 'set_withcall') if n not in T]
    if missing: raise Exception('templates not found in the IR: %s' % missing)
    return T

class St:
    def __init__(s, tag):
        s.r = {g: BitVec(g + '_' + tag, 64) for g in GPR}; s.m = Array('mem_' + tag, BitVecSort(64), BitVecSort(64))
        s.events = []; s.cbfacts = []

def val(st, o):
    if o.startswith('$'): return BitVecVal(int(o[1:], 0), 64)
    if o.startswith('%'): return st.r[o[1:]]
    m = re.match(r'\((%\w+)\)$', o)
    if m: return Select(st.m, st.r[m.group(1)[1:]])
    raise Exception('operand ' + o)

def step(st, ins, label_addr, callback):
    p = ins.split(None, 1); op = p[0]; a = [x.strip() for x in p[1].split(',')] if len(p) > 1 else []
    op = {'subq': 'sub', 'addq': 'add', 'pushq': 'push', 'popq': 'pop', 'movq': 'mov', 'lea': 'leaq', 'callq': 'call', 'jmpq': 'jmp'}.get(op, op)
    if op == 'sub': st.r[a[1][1:]] = st.r[a[1][1:]] - val(st, a[0])
    elif op == 'add': st.r[a[1][1:]] = st.r[a[1][1:]] + val(st, a[0])
    elif op == 'push': st.r['rsp'] = st.r['rsp'] - 8; st.m = Store(st.m, st.r['rsp'], val(st, a[0]))
    elif op == 'pop': st.r[a[0][1:]] = Select(st.m, st.r['rsp']); st.r['rsp'] = st.r['rsp'] + 8
    elif op == 'leaq':
        if not re.match(r'1f\(%rip\)$', a[0]): raise Exception('unsupported lea ' + ins)
        st.r[a[1][1:]] = label_addr
    elif op == 'mov':
        if a[1].startswith('('):
            st.m = Store(st.m, st.r[re.match(r'\((%\w+)\)', a[1]).group(1)[1:]], val(st, a[0])); st.events.append(('store_ctx', st.r['rsp']))
        else: st.r[a[1][1:]] = val(st, a[0])
    elif op == 'call': callback(st)
    elif op == 'jmp': return val(st, a[0].lstrip('*'))
    else: raise Exception('unsupported instruction: ' + ins)
    return None

def run(st, prog, label_addr, callback, start=0):
    checks = []
    for i in range(start, len(prog)):
        ins = prog[i]
        if ins.endswith(':'): continue
        if re.match(r'call', ins):
            checks.append(('align@call', st.r['rsp'] & 15 == 0, dict(st.r), st.m))
        t = step(st, ins, label_addr, callback)
        if t is not None: return t, i, checks
    return None, len(prog), checks

_k = [0]
def sysv_callback(st):
    """the callback obeys the SysV ABI: callee-saved registers and memory at/above its entry rsp are preserved"""
    _k[0] += 1
    rsp = st.r['rsp']
    for g in CALLER_SAVED: st.r[g] = BitVec('cb%d_%s' % (_k[0], g), 64)
    newm = Array('cbmem%d' % _k[0], BitVecSort(64), BitVecSort(64))
    st.cbfacts.append((rsp, newm, st.m)); st.m = newm

def obligations(T, sname, lname, mutate=None):
    """S = template that suspends thread A (save half), L = template another thread uses to resume A."""
    S = T[sname]; L = T[lname]
    A = St('A'); entry = dict(A.r); entry_m = A.m
    L1 = BitVec('L1', 64); ctxA = BitVec('ctxA', 64); y = BitVec('y', 64)
    pre = [entry['rsp'] & 15 == 0, UGT(entry['rsp'], 1 << 24), ULT(entry['rsp'], (1 << 47))]
    from_reg = S['ins'][0]; A.r[from_reg] = ctxA
    pre += [ULT(ctxA, entry['rsp'] - 4096)]            # the context word is not on the frame being pushed (C12: descriptors are separate allocations)
    obl = []
    # ---- save half of S (until its jmp).  If S has a call, the callback runs on the TARGET stack after the save.
    to_reg_S = S['ins'][1] if len(S['ins']) > 1 else None
    ctxT = BitVec('ctxT', 64); tgt_rsp = BitVec('tgt_rsp', 64)
    if to_reg_S: A.r[to_reg_S] = ctxT
    pre += [ctxT != ctxA, Select(entry_m, ctxT) == tgt_rsp, tgt_rsp & 15 == 0, UGT(tgt_rsp, 1 << 24), ULT(tgt_rsp, 1 << 47),
            Or(ULT(tgt_rsp + 65536, entry['rsp'] - 65536), UGT(tgt_rsp - 65536, entry['rsp'] + 65536)),
            Or(ULT(ctxT, entry['rsp'] - 4096), UGT(ctxT, entry['rsp'] + 4096)),
            # stacks are disjoint blocks (C12): the callback's frame window [tgt_rsp - 1MB, tgt_rsp) does not contain A's frame or A's context word
            Or(ULT(entry['rsp'] + 4096, tgt_rsp - (1 << 20)), UGT(entry['rsp'] - 4096, tgt_rsp)),
            Or(UGE(ctxA, tgt_rsp), ULT(ctxA, tgt_rsp - (1 << 20)))]
    at_call_S = []
    def cb_S(st):
        at_call_S.append((dict(st.r), st.m))
        sysv_callback(st)
    tgt, idx, chkS = run(A, S['prog'], L1, cb_S)
    saved_rsp = entry['rsp'] - 128 - 6 * 8 - 8 - 8
    if at_call_S:
        regs, mem = at_call_S[0]
        saved_ok = And(Select(mem, ctxA) == saved_rsp, Select(mem, saved_rsp) == L1,
                       Select(mem, saved_rsp + 16) == entry['r15'], Select(mem, saved_rsp + 24) == entry['r14'], Select(mem, saved_rsp + 32) == entry['r13'],
                       Select(mem, saved_rsp + 40) == entry['r12'], Select(mem, saved_rsp + 48) == entry['rbx'], Select(mem, saved_rsp + 56) == entry['rbp'])
        obl.append(('order: callback runs only after the suspended context is completely saved', saved_ok))
        argregs = S['ins'][2:5]
        if len(argregs) == 3:
            obl.append(('callback receives the three arguments in rdi, rsi, rdx', And(regs['rdi'] == entry[argregs[0]] if argregs[0] == 'rdi' else regs['rdi'] == entry['rdi'],
                                                                                      regs['rsi'] == entry['rsi'], regs['rdx'] == entry['rdx'],
                                                                                      argregs == ['rdi', 'rsi', 'rdx'])))
        obl.append(('rsp is 16-byte aligned at the callback call of the suspending switch', regs['rsp'] & 15 == 0))
        obl.append(('callback of the suspending switch runs on the target stack', regs['rsp'] == tgt_rsp))
    memS = A.m
    # ---- interference: anything below the saved area may change while A is suspended; A's stack [saved_rsp, ...) and its context word are preserved
    mem2 = Array('mem_after', BitVecSort(64), BitVecSort(64))
    sv = Select(memS, ctxA)
    INST = [ctxA, y] + [saved_rsp + 8 * i for i in range(0, 48)]
    for (rsp_, newm_, oldm_) in A.cbfacts:
        for x in INST: pre.append(Implies(Or(UGE(x, rsp_), ULT(x, rsp_ - (1 << 20))), Select(newm_, x) == Select(oldm_, x)))
    for x in INST: pre.append(Implies(Or(UGE(x, saved_rsp), x == ctxA), Select(mem2, x) == Select(memS, x)))
    # ---- thread B resumes A with template L
    B = St('B'); B.m = mem2
    if lname in ('swap', 'swap_withcall'):
        B.r[L['ins'][0]] = BitVec('ctxB2', 64); B.r[L['ins'][1]] = ctxA
        pre += [B.r['rsp'] & 15 == 0, ULT(B.r['rsp'], saved_rsp - 65536), UGT(B.r['rsp'], 65536), ULT(B.r[L['ins'][0]], B.r['rsp'] - 65536),
                B.r[L['ins'][0]] != ctxA, Or(ULT(ctxA, B.r['rsp'] - 4096), UGT(ctxA, B.r['rsp']))]
    else:
        B.r[L['ins'][0]] = ctxA
    tgt2, idx2, chk2 = run(B, L['prog'], BitVec('L1B', 64), sysv_callback)
    for (rsp_, newm_, oldm_) in B.cbfacts:
        for x in INST: pre.append(Implies(UGE(x, rsp_), Select(newm_, x) == Select(oldm_, x)))
    # ---- control continues at A's label 1 with B's register state: epilogue of S
    lab = S['prog'].index('1:')
    run(B, S['prog'], L1, sysv_callback, start=lab + 1)
    goal = And(sv == saved_rsp, tgt2 == L1, *[B.r[g] == entry[g] for g in CALLEE_SAVED + ['rsp']])
    obl.append(('round trip: control returns to the resume label with rbx,rbp,r12-r15,rsp as at suspension', goal))
    obl.append(('stack above the entry rsp and the 128-byte red zone below it are unchanged across the suspension',
                Implies(And(UGE(y, entry['rsp'] - 128), ULT(y, entry['rsp'] + 4096)), Select(B.m, y) == Select(entry_m, y))))
    for n, c, _, _ in chk2: obl.append(('rsp is 16-byte aligned at the callback call of the resuming switch', c))
    return pre, obl

def decide(args):
    llpath, sname, lname = args
    T = load(llpath)
    pre, obl = obligations(T, sname, lname)
    out = []
    s = Solver(); s.set('timeout', 120000); s.add(pre)
    t0 = time.time(); r = s.check()
    out.append(dict(name='%s -> resumed by %s: assumptions are satisfiable (non-vacuity witness)' % (sname, lname), status='holds' if r == sat else 'vacuous' if r == unsat else 'unknown', solver_s=round(time.time() - t0, 2), witness=True))
    for nm, g in obl:
        s = Solver(); s.set('timeout', 300000); s.add(pre); s.add(Not(g))
        t0 = time.time(); r = s.check()
        d = dict(name='%s -> resumed by %s: %s' % (sname, lname, nm), status='holds' if r == unsat else 'violated' if r == sat else 'unknown', solver_s=round(time.time() - t0, 2))
        if r == sat:
            m = s.model(); d['model'] = {str(x): str(m[x]) for x in m.decls() if not str(x).startswith(('mem', 'cbmem'))}
        out.append(d)
    return out

def static_obligations(T):
    out = []
    for n, p in T.items():
        cover = set(p['outs']) | set(p['clob'])
        miss = [g for g in CALLER_SAVED if g not in cover]
        ok = not miss and 'memory' in p['clob'] and ('cc' in p['clob'] or 'flags' in p['clob'])
        out.append(dict(name='%s: every register the switch or a callback may change and that is not restored is an output or clobber; memory and flags are clobbered' % n,
                        status='holds' if ok else 'violated', solver_s=0.0, model=dict(missing=miss, clobbers=p['clob'], outputs=p['outs'])))
        pushes = [i.split()[1] for i in p['prog'] if i.startswith('push')]
        if n.startswith('swap'):
            ok2 = set('%' + g for g in CALLEE_SAVED) <= set(pushes)
            out.append(dict(name='%s: all six callee-saved registers are pushed' % n, status='holds' if ok2 else 'violated', solver_s=0.0, model=dict(pushed=pushes)))
    return out

def main():
    llpath, outpath = sys.argv[1], sys.argv[2]
    nj = int(sys.argv[3]) if len(sys.argv) > 3 else 8
    T = load(llpath)
    combos = [(llpath, s, l) for s in ('swap', 'swap_withcall') for l in ('swap', 'swap_withcall', 'set', 'set_withcall')]
    res = static_obligations(T)
    with ProcessPoolExecutor(max_workers=nj) as ex:
        for r in ex.map(decide, combos): res += r
    json.dump(dict(templates={n: p['prog'] for n, p in T.items()}, constraints={n: dict(outs=p['outs'], ins=p['ins'], clob=p['clob']) for n, p in T.items()}, obligations=res), open(outpath, 'w'), indent=1)
    bad = [r for r in res if r['status'] != 'holds']
    print('asmsmt: %d obligations, %d not holding' % (len(res), len(bad)))
    for b in bad: print('  ', b['status'], b['name'])

if __name__ == '__main__':
    main()
