"""Per-property job lists (quick / thorough tiers)."""
from vlib import Job

SYNC_DELETE = ['empty_loop', 'myth_spin_lock_body', 'myth_spin_unlock_body', 'myth_get_current_env', 'myth_get_current_env_noinline']
SPIN_SPECIAL = {'myth_spin_lock_body': 'lock', 'myth_spin_unlock_body': 'unlock'}
MODEL_ASSUMPTIONS = [
    'engine B: schedules = all interleavings with at most R scheduling segments per logical thread (round-robin rounds, one solver-chosen preemption point per segment); beyond R is outside the claim',
    'pre-emption granularity preempt=sync: volatile/atomic accesses, CAS, fences and harness-model calls are visible points; plain accesses are assumed data-race free (lock or hand-off protected)',
    'context switch macros, run queue and current-worker accessor are replaced by the harness model (model/verif_model.h); the real asm is verified in C03, the real deque in C02',
    'myth_spin_lock_body/unlock_body are modelled as blocking atomic acquire/release (the real spinlock is verified in C02 spinlock harness); empty_loop is a no-op',
    'every runnable thread gets its own worker (superset of the interleavings of any real worker count)',
    'malloc/mmap never fail (--no-malloc-may-fail)',
]

def bjob(name, src, threads, rounds, defs=(), preempt='sync', tso=False, timeout=1500, mem_gb=10, extra_cfg=None, unwind=4, plain=('verif_init', 'verif_final'), delete=SYNC_DELETE, special=SPIN_SPECIAL, note='', bounds=None):
    cfg = dict(threads=list(threads), plain=list(plain), rounds=rounds, opts=dict(preempt=preempt, tso=tso),
               special=dict(special), env_model='verif_env_of_tid')
    if extra_cfg: cfg.update(extra_cfg)
    b = dict(threads=len(threads), rounds=rounds, preempt=preempt, memory_model='x86-TSO(depth 1)' if tso else 'SC', unwind=unwind)
    if bounds: b.update(bounds)
    return Job(name, 'B', src=src, defs=list(defs), cbmc=['--unwind', str(unwind)], cfg=cfg, delete=list(delete), timeout=timeout, mem_gb=mem_gb, bounds=b, note=note)

def cubes(job_fn, name, nthreads, parts, **kw):
    """case split (cube-and-conquer) on the first-round preemption point of every thread: (parts+1)^nthreads sub-queries that
    together cover exactly the schedule space of the unsplit query; the sub-queries run in parallel"""
    import itertools
    out = []
    for idx in itertools.product(range(parts + 1), repeat=nthreads):
        j = job_fn(name + '.cube' + ''.join(str(i) for i in idx), **kw)
        j.cfg['cube'] = dict(parts=parts, index=list(idx)); j.group = name
        j.bounds['case_split'] = 'first-round preemption point of each thread in class %s of %d (+1 = no preemption); all %d classes are run' % (list(idx), parts, (parts + 1) ** nthreads)
        out.append(j)
    return out

def C04(tier):
    src = 'harness/C04_mutex.c'
    jobs = [
        bjob('mutex.lock2.r4', src, ['t0', 't1'], 4, ['-DVN=2', '-DMODE=0']),
        bjob('mutex.trylock.r3', src, ['t0', 't1'], 3, ['-DVN=2', '-DMODE=1']),
        bjob('mutex.holder_never_unlocks.r3', src, ['t0', 't1'], 3, ['-DVN=2', '-DMODE=2'], extra_cfg=dict(allow_deadlock=True)),
        ajob('mutex.timedlock.k4', 'harness/C20_time.c', ['-DSCEN=3', '-DKMAX=4'], unwind=7, replace_calls=['myth_yield_ex_body:stub_yield_ex'], timeout=600,
             bounds=dict(clock='arbitrary non-decreasing readings, deadline passed by the 4th', other_threads='lock/unlock the mutex arbitrarily during each yield')),
    ]
    if tier == 'thorough':
        jobs += [
            bjob('mutex.lock3.r4', src, ['t0', 't1', 't2'], 4, ['-DVN=3', '-DMODE=0'], timeout=3600),
            bjob('mutex.lock2x2.r5', src, ['t0', 't1'], 5, ['-DVN=2', '-DMODE=3'], timeout=3600),
            bjob('mutex.lock2.r3.all', src, ['t0', 't1'], 3, ['-DVN=2', '-DMODE=0'], preempt='all', timeout=3600),
        ]
    return dict(jobs=jobs, assumptions=MODEL_ASSUMPTIONS,
                functions=['myth_mutex_lock_body', 'myth_mutex_trylock_body', 'myth_mutex_unlock_body', 'myth_mutex_clear_lock_bit',
                           'myth_block_on_queue', 'myth_block_on_queue_cb', 'myth_wake_one_from_queue', 'myth_sleep_queue_enq', 'myth_sleep_queue_deq'])


def C05(tier):
    src = 'harness/C05_cond.c'
    def cj5(name, threads, rounds, defs, **kw): return lambda n, **k2: bjob(n, src, threads, rounds, defs, **dict(kw, **k2))
    jobs = [bjob('cond.signal.w1.r3', src, ['t0', 't1'], 3, ['-DVN=2', '-DMODE=0']),
            bjob('cond.broadcast.w1.r3', src, ['t0', 't1'], 3, ['-DVN=2', '-DMODE=1']),
            bjob('cond.signal_noop', 'harness/C05_signal_noop.c', ['t0', 't1'], 1, []),
            bjob('cond.signal_vs_busy_queue.r3.all', src, ['t0', 't1', 't2'], 3, ['-DVN=3', '-DMODE=4'], preempt='all', special={}, delete=['empty_loop', 'myth_get_current_env', 'myth_get_current_env_noinline'],
                 note='real spinlock code (no atomic-lock model) so that a waker can observe the queue lock held by another waker')]
    if tier == 'thorough':
        jobs += [bjob('cond.signal.w1.r4', src, ['t0', 't1'], 4, ['-DVN=2', '-DMODE=0'], timeout=7200, mem_gb=12),
                 bjob('cond.broadcast.w1.r4', src, ['t0', 't1'], 4, ['-DVN=2', '-DMODE=1'], timeout=7200, mem_gb=12),
                 bjob('cond.broadcast.w2.r3', src, ['t0', 't1', 't2'], 3, ['-DVN=3', '-DMODE=2'], timeout=14000, mem_gb=16),
                 bjob('cond.signal2.w2.r3', src, ['t0', 't1', 't2'], 3, ['-DVN=3', '-DMODE=3'], timeout=14000, mem_gb=16)]
    return dict(jobs=jobs, assumptions=MODEL_ASSUMPTIONS,
                functions=['myth_cond_wait_body', 'myth_cond_signal_body', 'myth_cond_broadcast_body', 'myth_wake_if_any_from_queue', 'myth_wake_all_from_queue',
                           'myth_block_on_queue', 'myth_block_on_queue_cb', 'myth_mutex_lock_body', 'myth_mutex_unlock_body', 'myth_mutex_lock (myth_if_native.c)'])

def C06(tier):
    src = 'harness/C06_barrier.c'
    jobs = [
        bjob('barrier.n2.k1.r3', src, ['t0', 't1'], 3, ['-DVN=2', '-DROUNDS=1'], preempt='sync'),
        bjob('barrier.n2.k1.r3.all', src, ['t0', 't1'], 3, ['-DVN=2', '-DROUNDS=1'], preempt='all'),
    ]
    NW = 64 if tier == 'quick' else 256
    jobs.append(ajob('barrier.release_step.n%d' % NW, 'harness/C06_wake_step.c', ['-DNMAX=%d' % NW, '-DKIND=0'], unwind=NW + 4, timeout=7200, mem_gb=16, extra=['--object-bits', '12', '--max-field-sensitivity-array-size', '2000'],
                     replace_calls=['myth_sleep_stack_pop:stub_pop', 'myth_queue_push:stub_push'], bounds=dict(sleepers='every n in [0,%d]' % NW, step='one call of myth_wake_many_from_stack')))
    NO = 1100 if tier == 'quick' else 2048  # measured (n=1100): 98 s, 0.9 GB; 2048 with a full-size pool ran out of memory
    jobs.append(ajob('barrier.release_order.n%d' % NO, 'harness/C06_wake_step.c', ['-DNMAX=%d' % NO, '-DKIND=0', '-DALIAS=1'], unwind=NO + 4, timeout=7200, mem_gb=40, extra=['--object-bits', '12'],
                     replace_calls=['myth_sleep_stack_pop:stub_pop', 'myth_queue_push:stub_push'], bounds=dict(sleepers='every n in [0,%d]' % NO, step='one call of myth_wake_many_from_stack; order of collection and publication only (all sleepers are one aliased descriptor; identity is decided by barrier.release_step)')))
    jobs.append(ajob('barrier.arrival_step', 'harness/C06_step.c', [], unwind=4, timeout=600, replace_calls=['myth_wake_many_from_stack:stub_wake_many', 'myth_block_on_stack:stub_block'],
                     bounds=dict(n_threads='every N in [1, 2^31)', arrivals='every count c in [0, N)', step='one myth_barrier_wait_body from an arbitrary reachable state')))
    if tier == 'thorough':
        jobs += [
            bjob('barrier.n2.k2.r6', src, ['t0', 't1'], 6, ['-DVN=2', '-DROUNDS=2'], timeout=14000, mem_gb=16),
            bjob('barrier.n3.k1.r6', src, ['t0', 't1', 't2'], 6, ['-DVN=3', '-DROUNDS=1'], timeout=14000, mem_gb=16),
            bjob('barrier.n2.k1.r4.all', src, ['t0', 't1'], 4, ['-DVN=2', '-DROUNDS=1'], preempt='all', timeout=14000, mem_gb=16),
        ]
    return dict(jobs=jobs, assumptions=MODEL_ASSUMPTIONS,
                functions=['myth_barrier_wait_body', 'myth_barrier_init_body', 'myth_wake_many_from_stack', 'myth_block_on_stack', 'myth_block_on_stack_cb', 'myth_sleep_stack_push', 'myth_sleep_stack_pop'])

def C07(tier):
    src = 'harness/C07_joincounter.c'
    jobs = [
        bjob('jc.d1.w1.r3', src, ['t0', 't1'], 3, ['-DVN=2', '-DNDEC=1', '-DMODE=1']),
        bjob('jc.d2.w1.r3', src, ['t0', 't1', 't2'], 3, ['-DVN=3', '-DNDEC=2', '-DMODE=0']),
        Job('jc.bits', 'A', src='harness/C07_bits.c', cbmc=['--unwind', '65'], bounds=dict(n_threads='all values in [0, 2^62)', unwind=65), timeout=900),
        ajob('jc.release_step.n%d' % (64 if tier == 'quick' else 256), 'harness/C06_wake_step.c', ['-DNMAX=%d' % (64 if tier == 'quick' else 256), '-DKIND=1'], unwind=(64 if tier == 'quick' else 256) + 4, timeout=7200, mem_gb=16, extra=['--object-bits', '12', '--max-field-sensitivity-array-size', '2000'],
             replace_calls=['myth_sleep_queue_deq:stub_deq', 'myth_queue_push:stub_push'], bounds=dict(waiters='every n in [0,%d]' % (64 if tier == 'quick' else 256), step='one call of myth_wake_many_from_queue')),
        ajob('jc.release_order.n1100', 'harness/C06_wake_step.c', ['-DNMAX=1100', '-DKIND=1', '-DALIAS=1'], unwind=1104, timeout=7200, mem_gb=40, extra=['--object-bits', '12'],
             replace_calls=['myth_sleep_queue_deq:stub_deq', 'myth_queue_push:stub_push'], bounds=dict(waiters='every n in [0,1100]', step='one call of myth_wake_many_from_queue; order of collection and publication only (all waiters are one aliased descriptor; identity is decided by jc.release_step)')),
        ajob('jc.step', 'harness/C07_step.c', [], unwind=34, timeout=900, replace_calls=['myth_wake_many_from_queue:stub_wake_many', 'myth_block_on_queue:stub_block'],
             bounds=dict(n_threads='every N in [1, 2^31)', waiters='every count in [0, 2^30)', step='one dec or one wait from an arbitrary packed state')),
    ]
    if tier == 'thorough':
        jobs += [
            bjob('jc.d1.w2.r4', src, ['t0', 't1', 't2'], 4, ['-DVN=3', '-DNDEC=1', '-DMODE=0'], timeout=5400, mem_gb=16),
            bjob('jc.d2.w1.r4', src, ['t0', 't1', 't2'], 4, ['-DVN=3', '-DNDEC=2', '-DMODE=1'], timeout=5400, mem_gb=16),
            bjob('jc.d1.w1.r4.all', src, ['t0', 't1'], 4, ['-DVN=2', '-DNDEC=1', '-DMODE=1'], preempt='all', timeout=5400),
            bjob('jc.d2.w2.r4', src, ['t0', 't1', 't2', 't3'], 4, ['-DVN=4', '-DNDEC=2', '-DMODE=0'], timeout=5400, mem_gb=16),
            bjob('jc.d2.w1.r5.all', src, ['t0', 't1', 't2'], 5, ['-DVN=3', '-DNDEC=2', '-DMODE=1'], preempt='all', timeout=5400, mem_gb=16),
        ]
    return dict(jobs=jobs, assumptions=MODEL_ASSUMPTIONS,
                functions=['myth_join_counter_init_body', 'calc_bits', 'myth_join_counter_wait_body', 'myth_join_counter_dec_body', 'myth_wake_many_from_queue', 'myth_block_on_queue'])

def C08(tier):
    src = 'harness/C08_uncond.c'
    jobs = [
        bjob('uncond.rv2.r4', src, ['t0', 't1'], 4, ['-DRV=2']),
        bjob('uncond.rv1.r3.all', src, ['t0', 't1'], 3, ['-DRV=1'], preempt='all'),
    ]
    if tier == 'thorough':
        jobs += [bjob('uncond.rv2.r5.all', src, ['t0', 't1'], 5, ['-DRV=2'], preempt='all', timeout=5400, mem_gb=16),
                 bjob('uncond.rv3.r6', src, ['t0', 't1'], 6, ['-DRV=3'], timeout=5400, mem_gb=16),
                 bjob('uncond.rv3.r7.all', src, ['t0', 't1'], 7, ['-DRV=3'], preempt='all', timeout=5400, mem_gb=16)]
    return dict(jobs=jobs, assumptions=MODEL_ASSUMPTIONS + ['protocol assumption from the documentation: the waiter announces itself atomically before calling wait and the signaller signals only after seeing the announcement'],
                functions=['myth_uncond_wait_body', 'myth_uncond_wait_cb', 'myth_uncond_signal_body'])

def C09(tier):
    src = 'harness/C09_felock.c'
    jobs = [
        bjob('felock.p1c1.i1.r2', src, ['t0', 't1'], 2, ['-DNP=1', '-DNC=1', '-DITEMS=1']),
        bjob('felock.plainlock_vs_status.r3', src, ['t0', 't1'], 3, ['-DNP=1', '-DNC=1', '-DITEMS=1', '-DPLAINLOCK=1']),
        bjob('felock.mark_same_status_wakes_sleeper.r3', src, ['t0', 't1'], 3, ['-DNP=1', '-DNC=1', '-DITEMS=1', '-DSLEEPER=1']),
    ]
    if tier == 'thorough':
        jobs += [bjob('felock.p1c1.i2.r2', src, ['t0', 't1'], 2, ['-DNP=1', '-DNC=1', '-DITEMS=2'], timeout=14000, mem_gb=16),
                 bjob('felock.p1c1.i1.r3', src, ['t0', 't1'], 3, ['-DNP=1', '-DNC=1', '-DITEMS=1'], timeout=14000, mem_gb=16),
                 bjob('felock.p1c1.i1.r4', src, ['t0', 't1'], 4, ['-DNP=1', '-DNC=1', '-DITEMS=1'], timeout=20000, mem_gb=16),
                 # felock.p1c1.i2.r4 (2 items, R=4) held when run alone but took 2.2 h; felock.p1c2.i2.r3 (2 consumers) gave no verdict in 2.5 h: not in the tier
                 bjob('felock.p2c1.i1.r3', src, ['t0', 't1', 't2'], 3, ['-DNP=2', '-DNC=1', '-DITEMS=1'], timeout=14000, mem_gb=16)]
    return dict(jobs=jobs, assumptions=MODEL_ASSUMPTIONS,
                functions=['myth_felock_wait_and_lock_body', 'myth_felock_mark_and_signal_body', 'myth_felock_status_body', 'myth_cond_wait (myth_if_native.c)', 'myth_cond_signal (myth_if_native.c)', 'myth_mutex_lock_body', 'myth_mutex_unlock_body'])

def C14(tier):
    src = 'harness/C14_once.c'
    jobs = [
        bjob('once.c2.r4', src, ['t0', 't1'], 4, ['-DVN=2', '-DMODE=1']),
        bjob('once.c3.r3', src, ['t0', 't1', 't2'], 3, ['-DVN=3', '-DMODE=0']),
    ]
    if tier == 'thorough':
        jobs += [bjob('once.c3.r5.all', src, ['t0', 't1', 't2'], 5, ['-DVN=3', '-DMODE=1'], preempt='all', timeout=3600),
                 bjob('once.c4.r4.all', src, ['t0', 't1', 't2', 't3'], 4, ['-DVN=4', '-DMODE=0'], preempt='all', timeout=3600, mem_gb=16),
                 bjob('once.c3.r7.all', src, ['t0', 't1', 't2'], 7, ['-DVN=3', '-DMODE=1'], preempt='all', timeout=3600, mem_gb=16)]
    return dict(jobs=jobs, assumptions=MODEL_ASSUMPTIONS + ['myth_yield() inside myth_once_wait_until is modelled as a plain scheduling yield'],
                functions=['myth_once_body', 'myth_once_try_set', 'myth_once_wait_until'])


KEYTAB64 = dict(text_patches=[[r'myth_tls_tree_depth = 3,', 'myth_tls_tree_depth = 1,']])
KEYTAB16 = dict(text_patches=[[r'myth_tls_tree_depth = 3,', 'myth_tls_tree_depth = 0,']])
A_ASSUME = ['malloc/mmap never fail (--no-malloc-may-fail)', 'environment functions are nondeterministic stubs constrained only by their documented contract (listed per harness)']
def ajob(name, src, defs=(), unwind=6, timeout=1200, mem_gb=10, replace_calls=(), bounds=None, extra=(), wrap='MYTH_WRAP_VANILLA', note='', remove_bodies=(), func=None, sat=None, cfg=None):
    b = dict(unwind=unwind); b.update(bounds or {})
    return Job(name, 'A', src=src, defs=list(defs), cbmc=['--unwind', str(unwind)] + list(extra), timeout=timeout, mem_gb=mem_gb,
               replace_calls=list(replace_calls), bounds=b, wrap=wrap, note=note, remove_bodies=list(remove_bodies), func=func, sat=sat, cfg=cfg)

def C20(tier):
    src = 'harness/C20_time.c'; rc = ['myth_yield_ex_body:stub_yield_ex']
    K = 4 if tier == 'quick' else 10
    names = ['timespec_add_gt', 'nanosleep', 'sleep', 'timedlock', 'timedjoin', 'hr_gettime', 'usleep_kernel']
    jobs = [ajob('time.%s.k%d' % (names[i], K), src, ['-DSCEN=%d' % i, '-DKMAX=%d' % K], unwind=K + 3,
                 replace_calls=rc + (['myth_nanosleep_body:stub_nanosleep'] if i == 6 else []), timeout=600, sat=('cvc5-int' if i == 6 else None), extra=['--object-bits', '10'],
                 bounds=dict(clock_readings_until_forced_past_deadline=K, timespec='all values (tv_sec < 2^40 for clock readings and requests, < 2^61 in timespec_add)'))
            for i in range(7)]
    return dict(jobs=jobs, assumptions=A_ASSUME + ['clock_gettime returns an arbitrary non-decreasing sequence of valid timespecs and passes the deadline at the K-th reading at the latest',
                'myth_yield_ex_body is replaced by a stub in which other threads may lock/unlock the mutex or let the join target finish (the real yield is covered by C01/C02)'],
                functions=['myth_nanosleep_body', 'myth_usleep_body', 'myth_sleep_body', 'myth_timespec_add', 'myth_timespec_gt', 'myth_mutex_timedlock_body', 'myth_mutex_trylock_body',
                           'myth_timedjoin_body', 'myth_tryjoin_body', 'myth_join_1', 'hr_gettime'])


def C11(tier):
    src = 'harness/C11_destructors.c'; wsrc = 'harness/C11_walk.c'
    inner = [[r's \+= myth_tls_call_destructors_rec\(c, depth \+ 1,', 's += stub_cd_rec(c, depth + 1,'], [r'myth_tls_tree_destroy_rec\(t, c, depth \+ 1,', 'stub_td_rec(t, c, depth + 1,']]
    top = [[r'return myth_tls_call_destructors_rec\(t->root,', 'return stub_cd_rec(t->root,'], [r'return myth_tls_tree_destroy_rec\(t, t->root,', 'return stub_td_rec(t, t->root,']]
    names = ['leaf_step', 'internal_step_destructors', 'internal_step_teardown', 'fini_top', 'leaf_step_teardown']
    jobs = [ajob('walk.%s' % names[i], wsrc, ['-DSCEN=%d' % i, '-DVERIF_LOCAL_NODES=1'], unwind=18, timeout=1500, cfg=dict(text_patches=(inner if i in (1, 2) else top if i == 3 else [])),
                 bounds=dict(step='one level of the recursive walk from an arbitrary node: symbolic depth, key base, child pattern / leaf contents and destructor table; the recursive self-call is redirected to a recording stub by a text patch on the preprocessed copy (inductive step)'))
            for i in range(5)]
    jobs.append(ajob('fresh_node_clean', 'harness/C10_fresh.c', [], unwind=18, timeout=900, cfg=dict(real_tls_types=True), bounds=dict(memory='recycled descriptor pool and malloc chunk with arbitrary previous contents; real node type, byte-level')))
    # thorough = quick for this property: the end-to-end queries of harness/C11_destructors.c (1 or 2 symbolic keys over all 1024 indices, set + exit-time
    # walks in one query) gave no verdict when tried (2 keys in 16 sub-queries: out of memory at 6 GB each after ~40 min; 1 key: out of memory at 16 GB with the
    # leak ledger, no verdict in 40 min without it); the compositional step queries above are the claim.
    return dict(jobs=jobs, assumptions=A_ASSUME + ['compositional argument: leaf step + internal step (recursive call replaced by a recording stub) + top call give the property for every subset of keys by induction on the tree depth; that set() files key k under the digits of k is C10 (tree harness)',
                                                 'tree nodes come from a typed static pool standing for real_malloc; the embedded pre-allocation pool is put into its valid state "exhausted"',
                                                 'mechanical type patches on the preprocessed copy: entries[1] struct hack gets its real extent; the anonymous union {children, entries} becomes a struct (the code never puns between the two views)',
                                                 'a destructor call with a NULL value is not counted as a violation (the statement does not forbid it)'],
                functions=['myth_tls_tree_set', 'myth_tls_tree_fini', 'myth_tls_call_destructors', 'myth_tls_call_destructors_rec', 'myth_tls_tree_destroy', 'myth_tls_tree_destroy_rec', 'myth_tls_tree_node_free'])

def C10(tier):
    jobs = [ajob('tree.k2', 'harness/C10_tree.c', ['-DNK=2', '-DNPOOL=9'], unwind=18, timeout=1500, bounds=dict(keys='2 stored keys + 1 queried key, each symbolic in [-2, 1025]')),
            ajob('fresh_node_clean', 'harness/C10_fresh.c', [], unwind=18, timeout=900, cfg=dict(real_tls_types=True), bounds=dict(memory='recycled descriptor pool and malloc chunk with arbitrary previous contents; real node type, byte-level')),
            ajob('keyalloc.seq.a5', 'harness/C10_keyalloc_seq.c', ['-DKA_A=5', '-DKA_B=63'], unwind=6, timeout=900, cfg=KEYTAB64, bounds=dict(key_table='scaled to 64 cells by patching the enumerator myth_tls_tree_depth 3 -> 1 in the preprocessed copy (the allocator code is unchanged and parametric in the table size; the full 16 KB table ran the SAT instance out of memory)', state='free list [5,63], all other cells live; deleted key symbolic over {5, 1023, any out-of-range int}; 6 operations')),
            ajob('keyalloc.seq.a0', 'harness/C10_keyalloc_seq.c', ['-DKA_A=0', '-DKA_B=17'], unwind=6, timeout=900, cfg=KEYTAB64, bounds=dict(key_table='scaled to 64 cells (see keyalloc.seq.a5)', state='free list [0,17]; deleted key symbolic over {0, 256, any out-of-range int}'))]
    jobs.append(bjob('keyalloc.conc.r3', 'harness/C10_keyalloc_conc.c', ['t0', 't1'], 3, ['-DMODE=1'], preempt='all', delete=['empty_loop'], special={},
                     extra_cfg=dict(env_model=None, text_patches=KEYTAB16['text_patches']), unwind=18, timeout=7200, mem_gb=16,
                     bounds=dict(key_table='scaled to 16 cells (enumerator patch myth_tls_tree_depth 3 -> 0)', threads='T0: create, create; T1: create, create, delete, create')))
    if tier == 'thorough':
        # tree.k3 (3 stored keys): no verdict in 2 h, not in the tier
        # tree.k2 with recycled-pool garbage: no verdict in 90 min, not in the tier
        jobs += [ajob('keyalloc.seq.a63', 'harness/C10_keyalloc_seq.c', ['-DKA_A=63', '-DKA_B=0'], unwind=6, timeout=900, cfg=KEYTAB64, bounds=dict(key_table='scaled to 64 cells (see keyalloc.seq.a5)', state='free list 63 -> 0')),
                 ajob('keyalloc.seq.a1', 'harness/C10_keyalloc_seq.c', ['-DKA_A=1', '-DKA_B=2'], unwind=6, timeout=900, cfg=KEYTAB64, bounds=dict(key_table='scaled to 64 cells (see keyalloc.seq.a5)', state='free list 1 -> 2'))]
    return dict(jobs=jobs, assumptions=A_ASSUME + ['tree nodes come from typed static pools standing for real_malloc'],
                functions=['myth_tls_tree_get', 'myth_tls_tree_set', 'myth_tls_tree_init', 'myth_tls_key_allocator_alloc', 'myth_tls_key_allocator_dealloc'])


def C15(tier):
    Ls = [4, 5] if tier == 'quick' else [5, 6, 7]
    jobs = [ajob('cpulist.L%d' % l, 'harness/C15_cpulist.c', ['-DL=%d' % l, '-DNOUT=3'], unwind=max(l + 5, 12), timeout=3000 if tier == 'quick' else 14000, mem_gb=16, extra=['--object-bits', '12'],
                 bounds=dict(string='every byte string of length <= %d, or unset' % l, output_capacity=3)) for l in Ls]
    jobs.append(bjob('fini.migrate_back.r%d' % (4 if tier == 'quick' else 6), 'harness/C15_fini_migrate.c', ['t0'], 4 if tier == 'quick' else 6, [], timeout=1800, mem_gb=12, delete=list(SYNC_DELETE),
                     extra_cfg=dict(wrap=['myth_notify_workers_exit', 'myth_cleanup_worker'], trap=['myth_init_ex_body', 'getenv', 'atoi', 'myth_get_n_available_cpus', 'real_free', 'real_malloc', 'myth_flmalloc', 'myth_flfree']),
                     bounds=dict(start='main thread on worker 0 or 1 (symbolic)', resumes='after each hand-over the thread resumes on any idle worker (solver choice), up to R-1 times', workers=2),
                     note='rich worker model with VERIF_STEAL_ANY; myth_notify_workers_exit / myth_cleanup_worker are recording wrappers'))
    jobs.append(ajob('envdefaults', 'harness/C15_envdefaults.c', [], unwind=24, timeout=600, bounds=dict(values='atoi result arbitrary int; CPU count in [1,4096]')))
    return dict(jobs=jobs, assumptions=A_ASSUME + ['fini.migrate_back (engine B): rich worker model (model/verif_model_impl.h, VERIF_RICH + VERIF_STEAL_ANY): context-switch macros and run queue are models, a queued thread resumes on any idle worker chosen by the solver; myth_notify_workers_exit and myth_cleanup_worker are replaced at their call sites by recording wrappers; schedules with at most R segments', 'getenv returns an arbitrary NUL-terminated byte string of bounded length (or NULL); isdigit is the C-locale table; fprintf/fputc are no-ops',
                                                 'atoi is an arbitrary int (what the caller does with the value is the subject)', 'signed overflow of >9-digit numbers is outside the bound (strings <= 7 bytes)'],
                functions=['myth_parse_cpu_list', 'parse_range_list', 'parse_range', 'parse_int', 'next_char', 'cur_char', 'parse_error', 'int_list_add',
                           'myth_globalattr_init_body', 'myth_globalattr_default_stacksize', 'myth_globalattr_default_guardsize', 'myth_globalattr_default_num_workers',
                           'myth_startpoint_exit_ex_body', 'myth_startpoint_exit_ex_1'])


def C17(tier):
    N = 4 if tier == 'quick' else 5
    jobs = [ajob('cjm.n%d' % N, 'harness/C17_cjm.c', ['-DNMAX=%d' % N], unwind=2 * N + 6, timeout=6000, mem_gb=24,
                 replace_calls=['myth_create_ex_body:stub_create', 'myth_join_body:stub_join'], extra=['--unwindset', 'myth_create_join_various_ex_aux:%d' % (N + 1), '--object-bits', '12'],
                 cfg=dict(restrict_fp=['myth_create_join_various_ex_aux::1::1::func/f0,f1,f2,f3,f4']),
                 bounds=dict(n='symbolic in [0,%d]' % N, symbolic='arg/result/id/func strides in {8,16} bytes, attr stride {1,2} x sizeof(attr), ids/results/attrs NULL or not, many vs various variant',
                             function_pointers='the per-item function pointer is restricted to the harness functions f0..f4 (goto-instrument --restrict-function-pointer-by-name); without it the helper itself is a candidate target and the query explodes'))]
    PLAIN = 'function(sroa,early-cse,simplifycfg,lowerswitch),globaldce'
    AUX = 'F__ZN4mtbb16parallel_for_auxIl4BodyEET0_T_S3_S3_S3_RKS2_'
    names = ['parallel_for', 'parallel_for_step', 'task_group']
    variants = [(0, [], 'parallel_for'), (2, ['-DKTASKS=3'], 'task_group.k3'), (2, ['-DKTASKS=5'], 'task_group.k5')] if tier == 'quick' else [(0, [], 'parallel_for'), (1, [], 'parallel_for_step'), (2, ['-DKTASKS=3'], 'task_group.k3'), (2, ['-DKTASKS=5'], 'task_group.k5'), (2, ['-DKTASKS=0'], 'task_group.k0')]
    for i, extra_defs, nm in variants:
        jobs.append(Job('mtbb.%s' % nm, 'B', src='harness/C17_mtbb.cc', lang='c++', defs=['-DSCEN=%d' % i, '-DTASK_MEMORY_CHUNK_SZ=64', '-DTASK_GROUP_INIT_SZ=2'] + extra_defs,
                        cbmc=['--unwind', '16'] + (['--unwindset', AUX + ':5'] if i < 2 else []) + ['--object-bits', '16' if i == 1 else '12'], timeout=7200, mem_gb=24,
                        cfg=dict(threads=[], plain=['verif_main'], opt_pipe=PLAIN, opts={}, havoc_ok=['__cxa_pure_virtual']),
                        bounds=dict(indices='first,last symbolic in [-2,6], at most 3 indices in the range, step in [1,3]; task_group: 0, 3 or 5 run() calls (fixed per query) + reuse after wait; header knobs TASK_MEMORY_CHUNK_SZ=64, TASK_GROUP_INIT_SZ=2 (inline capacity 2, so the overflow paths are reached early)', unwind='16 loops / 5 recursion')))
    return dict(jobs=jobs, assumptions=A_ASSUME + ['myth_create_ex_body / myth_create is replaced by "run the child to completion now", myth_join by a no-op (the concurrent create/join protocol is C01)',
                                                 'C++ units verified: src/mtbb/task_group.h and src/mtbb/parallel_for.h as instantiated by harness/C17_mtbb.cc (clang++ -std=c++11 -fno-exceptions IR -> irseq plain mode -> cbmc); operator new/delete = malloc/free'],
                functions=['myth_create_join_various_ex_body', 'myth_create_join_many_ex_body', 'myth_create_join_various_ex_aux', 'mtbb::parallel_for (2 index forms)', 'mtbb::parallel_for_aux', 'mtbb::task_group_no_prof::run/run_task/wait', 'mtbb::task_list', 'mtbb::task_memory_allocator'])

def C12(tier):
    names = ['custom_size_cycle', 'two_live_custom', 'default_size', 'descriptors']
    jobs = [ajob('stack.%s' % names[i], 'harness/C12_stackalloc.c', ['-DSCEN=%d' % i], unwind=33, timeout=1800, extra=['--unwindset', 'myth_flmalloc.0:1'],
                 bounds=dict(size='every size in [1, 2^30-4096] (symbolic)', allocations='<= 4 mmap calls')) for i in range(4)]
    # the ownership ledger of the protocol harness (shared with C01/C13): stack released only after the final switch-away and once, record only after the finish
    j = cj('ledger.create_finish_join.parentfirst.r2', 2, 0, 0, 1, 2); jobs.append(j)
    if tier == 'thorough': jobs.append(cj('ledger.create_exit_detach.parentfirst.r4', 2, 1, 2, 1, 4, timeout=14000, mem=16))
    return dict(jobs=jobs, assumptions=A_ASSUME + ['mmap returns a fresh page-aligned object of the requested length', 'sizes above 2^30 (int shift in MYTH_MALLOC_INDEX_TO_RSIZE) are outside the claim'] + ['ledger.* (engine B): ' + a for a in RICH_ASSUME],
                functions=['myth_entry_point_cleanup', 'myth_join_body', 'get_new_myth_thread_struct_stack', 'free_myth_thread_struct_stack', 'get_new_myth_thread_struct_desc', 'free_myth_thread_struct_desc', 'myth_flmalloc', 'myth_flfree', 'myth_freelist_push', 'myth_freelist_pop'])


C16_RC = ['myth_mutex_lock_body:sb_mutex_lock', 'myth_mutex_trylock_body:sb_mutex_trylock', 'myth_mutex_unlock_body:sb_mutex_unlock',
          'myth_spin_lock_body:sb_spin_lock', 'myth_spin_trylock_body:sb_spin_trylock', 'myth_spin_unlock_body:sb_spin_unlock',
          'myth_cond_wait_body:sb_cond_wait', 'myth_cond_signal_body:sb_cond_signal', 'myth_cond_broadcast_body:sb_cond_broadcast',
          'myth_barrier_wait_body:sb_barrier_wait', 'myth_once_body:sb_once', 'myth_join_body:sb_join', 'myth_tryjoin_body:sb_tryjoin',
          'myth_detach_body:sb_detach', 'myth_create_ex_body:sb_create_ex', 'myth_key_create_body:sb_key_create',
          'myth_setspecific_body:sb_setspecific', 'myth_getspecific_body:sb_getspecific', 'myth_self_body:sb_self', 'myth_yield_body:sb_yield',
          'myth_mutex_init_body:sb_mutex_init', 'myth_barrier_init_body:sb_barrier_init']
def C16(tier):
    jobs = [ajob('wrap.ep%d_%d' % (lo, hi), 'harness/C16_wrap.c', ['-DEP_LO=%d' % lo, '-DEP_HI=%d' % hi], unwind=24, timeout=1500, wrap='MYTH_WRAP_LD',
                 replace_calls=C16_RC, bounds=dict(entry_points='%d..%d of 24, each with MYTH_WRAP_PTHREAD in {0, unset, 1}' % (lo, hi)))
            for lo, hi in ((1, 6), (7, 14), (15, 16), (17, 24))]
    return dict(jobs=jobs, assumptions=A_ASSUME + ['reference = the POSIX return/forwarding contract of each call, written in the harness (the system library itself cannot be encoded)',
                'myth_*_body functions are replaced by stubs returning any value their own contract allows (e.g. retry counts); their behaviour is verified in C01, C04-C06, C10, C11, C13, C14, C20',
                'real_* functions are recording stubs'],
                functions=['__wrap_pthread_* entry points of src/myth_wrap_pthread.c (24 of them)', 'pthread_attr_to_myth', 'pthread_mutexattr_to_myth', 'myth_handle_PTHREAD_MUTEX_INITIALIZER', 'myth_should_wrap_pthread', 'myth_thread_attr_init_body'])


DEQUE_ASSUME = [
    'engine B on the real deque, the REAL spinlock (CAS loop + xchg fence) and the real fence functions; fences are classified from their asm template (xchg/mfence = full fence, empty/lfence/sfence = no-op under TSO)',
    'preempt=all: every shared load/store is a possible preemption point',
    'x86-TSO jobs: one pending store per thread on the statically addressed scalars (top, base, lock word); other stores commit the pending one first (FIFO); buffer depth 1 is the bound',
    'capacity overridden to a small value (#undef/#define INITIAL_QUEUE_SIZE after including the real myth_config.h); the queue state is constructed directly (myth_queue_init is checked separately)',
    'at most R scheduling segments per thread']
def C02(tier):
    src = 'harness/C02_deque.c'
    def dj(name, mode, threads, rounds, tso, cap=8, timeout=1800, mem=10):
        return bjob(name, src, threads, rounds, ['-DMODE=%d' % mode, '-DCAP=%d' % cap], preempt='all', tso=tso, timeout=timeout, mem_gb=mem,
                    delete=['empty_loop'], special={}, extra_cfg=dict(env_model=None, ptr_memmove=True), bounds=dict(capacity=cap), unwind=cap + 2)
    T2 = ['t0', 't1']; T3 = ['t0', 't1', 't2']
    jobs = [dj('deque.pop2_take.sc.r3', 0, T2, 3, False), dj('deque.pop2_take.tso.r3', 0, T2, 3, True),
            dj('deque.pushpop_take.tso.r3', 8, T2, 3, True), dj('deque.pop_take_take.tso.r3', 3, T3, 3, True),
            dj('deque.trypass_lower_boundary.sc.r3', 9, T2, 3, False, cap=4), dj('deque.pop_take3.tso.r3', 10, T2, 3, True)]
    if tier == 'thorough':
        jobs += [dj('deque.pop2_take.tso.r5', 0, T2, 5, True, timeout=10000, mem=20), dj('deque.3elem.tso.r3', 2, T2, 3, True, timeout=10000, mem=20),   # deque.3elem.tso.r4: no verdict in 2 h, not in the tier
                 dj('deque.push_take2.tso.r3', 1, T2, 3, True, timeout=10000, mem=20),
                 dj('deque.recentre_push.tso.r3', 4, T2, 3, True, cap=4, timeout=10000, mem=20), dj('deque.recentre_put.tso.r3', 5, T2, 3, True, cap=4, timeout=10000, mem=20),
                 dj('deque.trypass.tso.r3', 6, T2, 3, True, timeout=10000, mem=20), dj('deque.peek.tso.r3', 7, T2, 3, True, timeout=10000, mem=20),
                 dj('deque.push_take2.sc.r4', 1, T2, 4, False, timeout=10000, mem=20)]
    return dict(jobs=jobs, assumptions=DEQUE_ASSUME,
                functions=['myth_queue_push', 'myth_queue_pop', 'myth_queue_take', 'myth_queue_put', 'myth_queue_trypass', 'myth_queue_peek', 'myth_spin_lock_body', 'myth_spin_trylock_body', 'myth_spin_unlock_body', 'myth_rwbarrier', 'myth_rbarrier', 'myth_wbarrier'])


def _asmsmt(job, wd, res):
    import vlib, json, os, sys, time
    src = os.path.join(vlib.VERIF, job.src); ll = os.path.join(wd, 'probe.ll'); out = os.path.join(wd, 'asmsmt.json')
    vlib.must(['clang-14', '-O1', '-S', '-emit-llvm', '-Dmyth_unreachable()='] + vlib.CPPFLAGS + ['-DMYTH_WRAP=MYTH_WRAP_VANILLA', '-w', src, '-o', ll], 'clang (probe)')
    rc, so, se, wall, rss = vlib.run(['python3-vt', os.path.join(vlib.VERIF, 'engines', 'asmsmt.py'), ll, out, str(job.cfg.get('nproc', 8))], timeout=job.timeout)
    res.rss_kb = rss
    if rc != 0 or not os.path.exists(out):
        res.status = 'undecided' if rc == -9 else 'error'; res.detail = 'asmsmt rc=%d %s' % (rc, (se or so)[-800:]); return
    d = json.load(open(out)); ob = d['obligations']
    res.n_props = len(ob); res.n_ok = sum(1 for o in ob if o['status'] == 'holds'); res.solver_s = sum(o.get('solver_s', 0) for o in ob)
    res.extra = dict(templates=d['templates'], constraints=d['constraints'], obligations=[dict(name=o['name'], status=o['status'], solver_s=o.get('solver_s')) for o in ob])
    bad = [o for o in ob if o['status'] == 'violated']; unk = [o for o in ob if o['status'] not in ('holds', 'violated')]
    wit = [o for o in ob if o.get('witness')]
    if bad:
        res.status = 'violated'
        for o in bad[:6]: res.violations.append(dict(prop='asmsmt', desc='C03 ' + o['name'], loc='src/myth_context_func.h (inline asm template)', nd=[], trace=None, native=dict(ok=True, model=o.get('model'))))
    elif unk: res.status = 'undecided'; res.detail = 'solver gave no verdict for: ' + '; '.join(o['name'] for o in unk[:3])
    elif not wit: res.status = 'vacuous'; res.detail = 'no satisfiability witness'
    else: res.status = 'holds'; res.witness = 'assumptions of all 8 save/resume combinations are satisfiable'

def C03(tier):
    jobs = [Job('ctxswitch.asm', 'C', src='harness/C03_probe.c', pyfunc=_asmsmt, timeout=2400, cfg=dict(nproc=8, no_native=True),
                bounds=dict(templates='2 suspending forms x 4 resuming forms, all register and memory contents symbolic (64-bit bit-vectors, memory = array)', arch='x86-64 SysV, MYTH_INLINE_CONTEXT')),
            ajob('ctxswitch.makectx', 'harness/C03_makectx.c', [], unwind=4, timeout=900, bounds=dict(stack_top='every offset in the top 512 bytes of a stack block'))]
    return dict(jobs=jobs, level='other',
                explanation='SMT (z3, bit-vectors + arrays, quantifier-free) proof obligations over a micro-semantics of the ~10 instruction forms occurring in the four real inline-asm context-switch templates, for ALL register/stack contents; plus cbmc on myth_make_context_*. Not bounded by loop unrollings; bounded by: x86-64 SysV, these 4 templates as clang emits them for the real macros.',
                assumptions=['the callback obeys the SysV ABI (callee-saved registers and memory at/above its entry rsp preserved) and does not write saved context words',
                             'stacks are disjoint blocks and context words do not lie on a stack range being pushed to (provided by C12); stack addresses are far from 0 and 2^47',
                             'xmm/x87/mxcsr are outside (caller-saved or explicitly not saved: MYTH_SAVE_FPCSR 0); i386/aarch64/sparc variants outside',
                             'memory-preservation facts are instantiated at the finitely many addresses the run reads (quantifier-free)'],
                functions=['myth_swap_context_i', 'myth_swap_context_withcall_i', 'myth_set_context_i', 'myth_set_context_withcall_i', 'myth_make_context_empty', 'myth_make_context_voidcall'])


RICH_ASSUME = MODEL_ASSUMPTIONS[:2] + [
    'rich worker model (model/verif_model_impl.h, VERIF_RICH): workers are handed over at child-first creation and at direct switches; a queued thread is either popped by the queue owner (nondeterministically) or stolen, in which case it resumes on the lowest-numbered idle worker set up as myth_sched_loop does',
    'context-switch macros, myth_make_context_* and the run queue are models (real asm: C03, real deque: C02); spinlocks are blocking atomic locks',
    'records and stacks come from pre-populated per-worker free lists (typed objects); fresh mappings (mmap) cut the path (allocator arithmetic is C12 stack_alloc); each record hosts at most one thread per run',
    'call sites of free_myth_thread_struct_stack/_desc are redirected (IR level) to harness wrappers that check the ownership ledger and then call the real function']
def cj(name, create, finish, reap, nchild, rounds, timeout=2400, mem=12, preempt='sync'):
    threads = ['t0', 't1'] + (['t2'] if nchild > 1 else [])
    trap = ['myth_init_ex_body', 'getenv', 'atoi', 'myth_get_n_available_cpus', 'real_free', 'real_malloc']
    delete = list(SYNC_DELETE)
    if create != 1:
        # default-size stacks only: the size-class allocator is unreachable; a call to it is reported instead of being explored with a symbolic
        # class index (which made every merge re-assign all 4x31 free-list heads: 21 M variables)
        trap += ['myth_flmalloc', 'myth_flfree']; delete += ['myth_flmalloc', 'myth_flfree']
    return bjob(name, 'harness/C01_create_join.c', threads, rounds, ['-DCREATE=%d' % create, '-DFINISH=%d' % finish, '-DREAP=%d' % reap, '-DNCHILD=%d' % nchild],
                preempt=preempt, timeout=timeout, mem_gb=mem, delete=delete, extra_cfg=dict(wrap=['free_myth_thread_struct_stack', 'free_myth_thread_struct_desc'], trap=trap),
                bounds=dict(create=['attr NULL', 'attr from attr_init', 'attr + parent-first', 'attr + detachstate'][create], finish=['return', 'exit routine from nested frame'][finish],
                            reap=['join', 'tryjoin x2 then join', 'detach', 'none (attribute)'][reap], children=nchild))
def C01(tier):
    jobs = [cj('cj.null.ret.join.r2', 0, 0, 0, 1, 2), cj('cj.null.exit.join.r2', 0, 1, 0, 1, 2), cj('cj.parentfirst.ret.join.r2', 2, 0, 0, 1, 2)]
    if tier == 'thorough':
        jobs += [cj('cj.null.ret.join.r3', 0, 0, 0, 1, 3, timeout=14000, mem=16), cj('cj.null.ret.join.r4', 0, 0, 0, 1, 4, timeout=14000, mem=16), cj('cj.parentfirst.exit.join.r4', 2, 1, 0, 1, 4, timeout=14000, mem=16)]
        # not in the tier (no verdict when tried, see DESIGN 10.6): cj.attr.exit.join.r2 (custom stack size: out of memory at 30 GB), cj.null.exit.join.2children.r3 and cj.null.ret.join.r3.all (> 45 min)
    return dict(jobs=jobs, assumptions=RICH_ASSUME,
                functions=['myth_create_ex_body', 'myth_create_1', 'myth_entry_point', 'myth_entry_point_cleanup', 'myth_entry_point_1', 'myth_entry_point_2', 'myth_exit_body', 'myth_join_body', 'myth_join_1', 'myth_join_2', 'myth_join_3',
                           'myth_thread_attr_init_body', 'init_myth_thread_struct', 'get_new_myth_thread_struct_desc', 'get_new_myth_thread_struct_stack', 'free_myth_thread_struct_desc', 'free_myth_thread_struct_stack', 'myth_tls_tree_init', 'myth_tls_tree_fini'])
def C13(tier):
    jobs = [cj('reap.tryjoin.r2', 0, 0, 1, 1, 2), cj('reap.detach.r2', 0, 0, 2, 1, 2), cj('reap.attr_detached.r2', 3, 0, 3, 1, 2)]
    if tier == 'thorough':
        jobs += [cj('reap.tryjoin.r3', 0, 0, 1, 1, 3, timeout=14000, mem=16), cj('reap.detach.r3', 0, 0, 2, 1, 3, timeout=14000, mem=16), cj('reap.tryjoin.r4', 0, 0, 1, 1, 4, timeout=14000, mem=16), cj('reap.detach.r4', 0, 0, 2, 1, 4, timeout=14000, mem=16), cj('reap.attr_detached.r4', 3, 0, 3, 1, 4, timeout=14000, mem=16),
                 cj('reap.detach.exit.parentfirst.r4', 2, 1, 2, 1, 4, timeout=14000, mem=16)]   # reap.detach.r3.all: no verdict in 45 min, not in the tier
    return dict(jobs=jobs, assumptions=RICH_ASSUME,
                functions=['myth_tryjoin_body', 'myth_detach_body', 'myth_join_body', 'myth_create_ex_body', 'myth_entry_point_cleanup', 'myth_entry_point_1', 'myth_entry_point_2', 'free_myth_thread_struct_desc', 'free_myth_thread_struct_stack'])

def C18(tier):
    src = 'harness/C18_step.c'; rc = ['dr_malloc:stub_dr_malloc', 'dr_free:stub_dr_free']
    jobs = [ajob('dr.leaf_step', src, ['-DSCEN=1'], unwind=8, timeout=600, bounds=dict(step='dr_end_interval_ on an arbitrary interval: all clocks, kinds, edge kinds, workers'))]
    def shapes(k, task):
        codes = [0, 1, 2] if task else [0, 1, 2, 3, 4]
        out = [[]]
        for _ in range(k - 1): out = [o + [c] for o in out for c in codes]
        return out
    if tier == 'quick':
        sel = [(1, 0, []), (1, 1, []), (2, 0, [3]), (2, 0, [4]), (2, 1, [2]), (3, 0, [4, 2]), (3, 0, [3, 4]), (3, 1, [2, 0])]
    else:
        sel = [(k, t, sh) for k in (1, 2, 3) for t in (0, 1) for sh in shapes(k, t)] + [(4, 0, [4, 2, 3]), (4, 0, [0, 4, 4]), (4, 1, [2, 1, 2])]
    for k, t, sh in sel:
        code = sum(c << (4 * i) for i, c in enumerate(sh))
        jobs.append(ajob('dr.close_step.%s.%s' % ('task' if t else 'section', ''.join(map(str, sh)) or 'x'), src, ['-DSCEN=0', '-DK_=%d' % k, '-DTASK=%d' % t, '-DSHAPE=0x%x' % code, '-DMETHOD=2'], unwind=k + 6, timeout=1500, replace_calls=rc,
                         bounds=dict(step='dr_summarize_section_or_task on a %s with %d parts of kinds %s + closing interval (0 other, 1 contracted section, 2 section holding a leaf, 3 create + contracted task, 4 create + task holding a leaf); all totals of the parts (t_1 < 2^60, counts < 2^30), workers and every contraction option symbolic' % ('task' if t else 'section', k, sh))))
    # whole executions through the public entry points; case split on the worker assignment (base-2 digits of WPAT)
    rce = ['dr_malloc:stub_dr_malloc', 'dr_free:stub_dr_free', 'dr_dag_node_freelist_add_page:stub_add_page', 'dr_get_tsc:stub_tsc', 'dr_free_dag:stub_free_dag']
    progs = [(0, 0, 4), (0, 1, 4)]   # the two-section program (PROG 2, 64 worker assignments) gave no verdict in 15 min per assignment: not in either tier
    for prog, order, nch in progs:
        for pat in range(0, 2 ** nch, 2 if prog == 2 else 1):   # prog 2: the root starts on worker 0 (the two workers are interchangeable), 64 assignments
            j = ajob('dr.e2e.p%d.o%d.w%s' % (prog, order, format(pat, '0%db' % nch)), 'harness/C18_e2e.c', ['-DPROG=%d' % prog, '-DORDER=%d' % order, '-DNW=2', '-DWPAT=%d' % pat, '-DNNODES=12'],
                     unwind=6, extra=['--unwindset', 'main.0:13,main.1:4,nd_worker.0:10'], timeout=900, replace_calls=rce,
                     bounds=dict(program=['root{create A{}; wait}', None, 'root{create A{}; wait; create B{}; wait}'][prog], call_order=['child first', 'parent continues while the child runs on another worker'][order],
                                 workers='2 workers; worker of every task segment = binary digit of %s, first choice = last digit (all %d assignments are run%s)' % (format(pat, '0%db' % nch), 2 ** nch // (2 if prog == 2 else 1), '; the root starts on worker 0, workers being interchangeable' if prog == 2 else ''),
                                 clock='arbitrary non-decreasing readings (increments < 2^40)', options='collapse_max_count, uncollapse_min, collapse_max symbolic; node_count_target = 0'))
            j.group = 'dr.e2e.p%d.o%d' % (prog, order); jobs.append(j)
    return dict(jobs=jobs, assumptions=A_ASSUME + ['inductive argument: leaf step (an interval\'s totals are its own length/kind) + closing step (a section or task gets exactly the serial-sum / max-over-created-children combination of its parts\' totals, whatever the contraction options do) give "totals = totals of the uncontracted sequence" for every well-nested execution by induction on nesting depth; the parts\' own totals are arbitrary (induction hypothesis) subject to t_inf <= t_1',
                'mechanical type patches on the preprocessed copy: the anonymous union {child | {subgraphs, parent/active_section}} of struct dr_dag_node and the padding union of dr_worker_specific_state become structs (the code tells the views apart by info.kind and never reads one after writing the other); consequence: a defect that reads the wrong view would not be seen',
                'dr_malloc/dr_free (scratch memory of the dr_free_dag traversal) are replaced by typed static pools; pool exhaustion is reported as an unwinding failure, never assumed away',
                'shape of one step bounded: <= 3 parts per section (4 in three thorough shapes), sub-sections/created tasks either contracted or holding one leaf; which worker ran what is symbolic (worker ids -1..3)',
                'whole-execution queries (dr.e2e.*): a serial simulator calls the real entry points for a fixed small program; dr_get_tsc is a stub (arbitrary non-decreasing clock); worker state comes from the real fixed-array lookup over a static array with pre-filled node free lists (running dry is reported as undecided); dr_free_dag is replaced by its effect on the graph there (the real traversal runs in the step queries); the oracle is computed from the simulator\'s own clock readings with the closed formula of the program\'s DAG',
                'report generation (gen_stat.c) and the .dag/.stat files are outside this claim (C19 territory: not applicable)'],
                functions=['dr_start_task__', 'dr_enter_create_task__', 'dr_return_from_create_task__', 'dr_enter_wait_tasks__', 'dr_return_from_wait_tasks__', 'dr_enter_other__', 'dr_return_from_other__', 'dr_end_task__', 'dr_end_interval_', 'dr_summarize_section_or_task', 'dr_accumulate_stats', 'dr_collapse_subgraph', 'dr_free_dag', 'dr_dag_node_free', 'dr_dag_node_stack_push_children', 'dr_prune_nodes_norec', 'dr_prune_nodes', 'dr_cur_nodes_below', 'dr_min_nodes_below', 'dr_get_logical_node_counts'])


SPECS = {'C18': C18, 'C04': C04, 'C20': C20, 'C01': C01, 'C13': C13, 'C03': C03, 'C02': C02, 'C16': C16, 'C12': C12, 'C17': C17, 'C15': C15, 'C11': C11, 'C10': C10, 'C05': C05, 'C06': C06, 'C07': C07, 'C08': C08, 'C09': C09, 'C14': C14}
