"""Per-property job lists (quick / thorough tiers)."""
from vlib import Job

SYNC_DELETE = ['empty_loop', 'myth_spin_lock_body', 'myth_spin_unlock_body', 'myth_get_current_env', 'myth_get_current_env_noinline']
SPIN_SPECIAL = {'myth_spin_lock_body': 'lock', 'myth_spin_unlock_body': 'unlock'}
MODEL_ASSUMPTIONS = [
    'engine B: schedules = all interleavings with at most R scheduling segments per logical thread (round-robin rounds, one solver-chosen preemption point per segment); beyond R is outside the claim',
    'pre-emption granularity preempt=sync: volatile/atomic accesses, CAS, fences and harness-model calls are visible points; plain accesses are assumed data-race free (lock or hand-off protected)',
    'context switch macros, run queue and current-worker accessor are replaced by the harness model (model/verif_model.h); the real asm is verified in C03, the real deque in C02',
    'myth_spin_lock_body/unlock_body are modelled as blocking atomic acquire/release (the real spinlock is verified in C02 spinlock harness); empty_loop is a no-op',
    'every runnable thread gets its own worker (superset of the interleavings of any real worker count)',
    'malloc/mmap never fail (--no-malloc-may-fail)',
]

def bjob(name, src, threads, rounds, defs=(), preempt='sync', tso=False, timeout=1500, mem_gb=10, extra_cfg=None, unwind=4, plain=('verif_init', 'verif_final'), delete=SYNC_DELETE, special=SPIN_SPECIAL, note='', bounds=None):
    cfg = dict(threads=list(threads), plain=list(plain), rounds=rounds, opts=dict(preempt=preempt, tso=tso),
               special=dict(special), env_model='verif_env_of_tid')
    if extra_cfg: cfg.update(extra_cfg)
    b = dict(threads=len(threads), rounds=rounds, preempt=preempt, memory_model='x86-TSO(depth 1)' if tso else 'SC', unwind=unwind)
    if bounds: b.update(bounds)
    return Job(name, 'B', src=src, defs=list(defs), cbmc=['--unwind', str(unwind)], cfg=cfg, delete=list(delete), timeout=timeout, mem_gb=mem_gb, bounds=b, note=note)

def C04(tier):
    src = 'harness/C04_mutex.c'
    jobs = [
        bjob('mutex.lock2.r4', src, ['t0', 't1'], 4, ['-DVN=2', '-DMODE=0']),
        bjob('mutex.trylock.r3', src, ['t0', 't1'], 3, ['-DVN=2', '-DMODE=1']),
        bjob('mutex.holder_never_unlocks.r3', src, ['t0', 't1'], 3, ['-DVN=2', '-DMODE=2'], extra_cfg=dict(allow_deadlock=True)),
    ]
    if tier == 'thorough':
        jobs += [
            bjob('mutex.lock3.r4', src, ['t0', 't1', 't2'], 4, ['-DVN=3', '-DMODE=0'], timeout=3600),
            bjob('mutex.lock2x2.r5', src, ['t0', 't1'], 5, ['-DVN=2', '-DMODE=3'], timeout=3600),
            bjob('mutex.lock2.r3.all', src, ['t0', 't1'], 3, ['-DVN=2', '-DMODE=0'], preempt='all', timeout=3600),
        ]
    return dict(jobs=jobs, assumptions=MODEL_ASSUMPTIONS,
                functions=['myth_mutex_lock_body', 'myth_mutex_trylock_body', 'myth_mutex_unlock_body', 'myth_mutex_clear_lock_bit',
                           'myth_block_on_queue', 'myth_block_on_queue_cb', 'myth_wake_one_from_queue', 'myth_sleep_queue_enq', 'myth_sleep_queue_deq'])


def C05(tier):
    src = 'harness/C05_cond.c'
    jobs = [
        bjob('cond.signal.w1.r4', src, ['t0', 't1'], 4, ['-DVN=2', '-DMODE=0']),
        bjob('cond.broadcast.w1.r4', src, ['t0', 't1'], 4, ['-DVN=2', '-DMODE=1']),
        bjob('cond.signal_noop', 'harness/C05_signal_noop.c', ['t0', 't1'], 1, []),
    ]
    if tier == 'thorough':
        jobs += [
            bjob('cond.broadcast.w2.r4', src, ['t0', 't1', 't2'], 4, ['-DVN=3', '-DMODE=2'], timeout=5400, mem_gb=16),
            bjob('cond.signal2.w2.r4', src, ['t0', 't1', 't2'], 4, ['-DVN=3', '-DMODE=3'], timeout=5400, mem_gb=16),
            bjob('cond.signal.w1.r5', src, ['t0', 't1'], 5, ['-DVN=2', '-DMODE=0'], timeout=5400),
        ]
    return dict(jobs=jobs, assumptions=MODEL_ASSUMPTIONS,
                functions=['myth_cond_wait_body', 'myth_cond_signal_body', 'myth_cond_broadcast_body', 'myth_wake_if_any_from_queue', 'myth_wake_all_from_queue',
                           'myth_block_on_queue', 'myth_block_on_queue_cb', 'myth_mutex_lock_body', 'myth_mutex_unlock_body', 'myth_mutex_lock (myth_if_native.c)'])

def C06(tier):
    src = 'harness/C06_barrier.c'
    jobs = [
        bjob('barrier.n2.k2.r4', src, ['t0', 't1'], 4, ['-DVN=2', '-DROUNDS=2'], preempt='sync'),
        bjob('barrier.n2.k1.r3.all', src, ['t0', 't1'], 3, ['-DVN=2', '-DROUNDS=1'], preempt='all'),
    ]
    if tier == 'thorough':
        jobs += [
            bjob('barrier.n3.k2.r4', src, ['t0', 't1', 't2'], 4, ['-DVN=3', '-DROUNDS=2'], timeout=5400, mem_gb=16),
            bjob('barrier.n2.k2.r4.all', src, ['t0', 't1'], 4, ['-DVN=2', '-DROUNDS=2'], preempt='all', timeout=5400, mem_gb=16),
            bjob('barrier.n2.k3.r5', src, ['t0', 't1'], 5, ['-DVN=2', '-DROUNDS=3'], timeout=5400, mem_gb=16),
        ]
    return dict(jobs=jobs, assumptions=MODEL_ASSUMPTIONS,
                functions=['myth_barrier_wait_body', 'myth_wake_many_from_stack', 'myth_block_on_stack', 'myth_block_on_stack_cb', 'myth_sleep_stack_push', 'myth_sleep_stack_pop'])

def C07(tier):
    src = 'harness/C07_joincounter.c'
    jobs = [
        bjob('jc.d1.w1.r3', src, ['t0', 't1'], 3, ['-DVN=2', '-DNDEC=1', '-DMODE=1']),
        bjob('jc.d2.w1.r3', src, ['t0', 't1', 't2'], 3, ['-DVN=3', '-DNDEC=2', '-DMODE=0']),
        Job('jc.bits', 'A', src='harness/C07_bits.c', cbmc=['--unwind', '65'], bounds=dict(n_threads='all values in [0, 2^62)', unwind=65), timeout=900),
    ]
    if tier == 'thorough':
        jobs += [
            bjob('jc.d1.w2.r4', src, ['t0', 't1', 't2'], 4, ['-DVN=3', '-DNDEC=1', '-DMODE=0'], timeout=5400, mem_gb=16),
            bjob('jc.d2.w1.r4', src, ['t0', 't1', 't2'], 4, ['-DVN=3', '-DNDEC=2', '-DMODE=1'], timeout=5400, mem_gb=16),
            bjob('jc.d1.w1.r4.all', src, ['t0', 't1'], 4, ['-DVN=2', '-DNDEC=1', '-DMODE=1'], preempt='all', timeout=5400),
        ]
    return dict(jobs=jobs, assumptions=MODEL_ASSUMPTIONS,
                functions=['myth_join_counter_init_body', 'calc_bits', 'myth_join_counter_wait_body', 'myth_join_counter_dec_body', 'myth_wake_many_from_queue', 'myth_block_on_queue'])

def C08(tier):
    src = 'harness/C08_uncond.c'
    jobs = [
        bjob('uncond.rv2.r4', src, ['t0', 't1'], 4, ['-DRV=2']),
        bjob('uncond.rv1.r3.all', src, ['t0', 't1'], 3, ['-DRV=1'], preempt='all'),
    ]
    if tier == 'thorough':
        jobs += [bjob('uncond.rv2.r5.all', src, ['t0', 't1'], 5, ['-DRV=2'], preempt='all', timeout=5400, mem_gb=16),
                 bjob('uncond.rv3.r6', src, ['t0', 't1'], 6, ['-DRV=3'], timeout=5400, mem_gb=16)]
    return dict(jobs=jobs, assumptions=MODEL_ASSUMPTIONS + ['protocol assumption from the documentation: the waiter announces itself atomically before calling wait and the signaller signals only after seeing the announcement'],
                functions=['myth_uncond_wait_body', 'myth_uncond_wait_cb', 'myth_uncond_signal_body'])

def C09(tier):
    src = 'harness/C09_felock.c'
    jobs = [
        bjob('felock.p1c1.i1.r4', src, ['t0', 't1'], 4, ['-DNP=1', '-DNC=1', '-DITEMS=1']),
        bjob('felock.p1c1.i2.r4', src, ['t0', 't1'], 4, ['-DNP=1', '-DNC=1', '-DITEMS=2'], timeout=2400),
    ]
    if tier == 'thorough':
        jobs += [bjob('felock.p2c1.i1.r4', src, ['t0', 't1', 't2'], 4, ['-DNP=2', '-DNC=1', '-DITEMS=1'], timeout=7200, mem_gb=20),
                 bjob('felock.p1c2.i2.r4', src, ['t0', 't1', 't2'], 4, ['-DNP=1', '-DNC=2', '-DITEMS=2'], timeout=7200, mem_gb=20),
                 bjob('felock.p1c1.i2.r6', src, ['t0', 't1'], 6, ['-DNP=1', '-DNC=1', '-DITEMS=2'], timeout=7200, mem_gb=20)]
    return dict(jobs=jobs, assumptions=MODEL_ASSUMPTIONS,
                functions=['myth_felock_wait_and_lock_body', 'myth_felock_mark_and_signal_body', 'myth_felock_status_body', 'myth_cond_wait (myth_if_native.c)', 'myth_cond_signal (myth_if_native.c)', 'myth_mutex_lock_body', 'myth_mutex_unlock_body'])

def C14(tier):
    src = 'harness/C14_once.c'
    jobs = [
        bjob('once.c2.r4', src, ['t0', 't1'], 4, ['-DVN=2', '-DMODE=1']),
        bjob('once.c3.r3', src, ['t0', 't1', 't2'], 3, ['-DVN=3', '-DMODE=0']),
    ]
    if tier == 'thorough':
        jobs += [bjob('once.c3.r5.all', src, ['t0', 't1', 't2'], 5, ['-DVN=3', '-DMODE=1'], preempt='all', timeout=3600)]
    return dict(jobs=jobs, assumptions=MODEL_ASSUMPTIONS + ['myth_yield() inside myth_once_wait_until is modelled as a plain scheduling yield'],
                functions=['myth_once_body', 'myth_once_try_set', 'myth_once_wait_until'])


A_ASSUME = ['malloc/mmap never fail (--no-malloc-may-fail)', 'environment functions are nondeterministic stubs constrained only by their documented contract (listed per harness)']
def ajob(name, src, defs=(), unwind=6, timeout=1200, mem_gb=10, replace_calls=(), bounds=None, extra=(), wrap='MYTH_WRAP_VANILLA', note='', remove_bodies=(), func=None, sat=None):
    b = dict(unwind=unwind); b.update(bounds or {})
    return Job(name, 'A', src=src, defs=list(defs), cbmc=['--unwind', str(unwind)] + list(extra), timeout=timeout, mem_gb=mem_gb,
               replace_calls=list(replace_calls), bounds=b, wrap=wrap, note=note, remove_bodies=list(remove_bodies), func=func, sat=sat)

def C20(tier):
    src = 'harness/C20_time.c'; rc = ['myth_yield_ex_body:stub_yield_ex']
    K = 4 if tier == 'quick' else 6
    names = ['timespec_add_gt', 'nanosleep', 'sleep', 'timedlock', 'timedjoin', 'hr_gettime', 'usleep_kernel']
    jobs = [ajob('time.%s.k%d' % (names[i], K), src, ['-DSCEN=%d' % i, '-DKMAX=%d' % K], unwind=K + 3,
                 replace_calls=rc + (['myth_nanosleep_body:stub_nanosleep'] if i == 6 else []), timeout=600, sat=('cvc5-int' if i == 6 else None),
                 bounds=dict(clock_readings_until_forced_past_deadline=K, timespec='all values (tv_sec < 2^40 for clock readings and requests, < 2^61 in timespec_add)'))
            for i in range(7)]
    return dict(jobs=jobs, assumptions=A_ASSUME + ['clock_gettime returns an arbitrary non-decreasing sequence of valid timespecs and passes the deadline at the K-th reading at the latest',
                'myth_yield_ex_body is replaced by a stub in which other threads may lock/unlock the mutex or let the join target finish (the real yield is covered by C01/C02)'],
                functions=['myth_nanosleep_body', 'myth_usleep_body', 'myth_sleep_body', 'myth_timespec_add', 'myth_timespec_gt', 'myth_mutex_timedlock_body', 'myth_mutex_trylock_body',
                           'myth_timedjoin_body', 'myth_tryjoin_body', 'myth_join_1', 'hr_gettime'])


def C11(tier):
    src = 'harness/C11_destructors.c'
    jobs = [ajob('dtor.k2', src, ['-DNK=2', '-DNPOOL=7', '-DLPOOL=2'], unwind=18, timeout=1500, bounds=dict(keys='2 symbolic keys over all 1024 indices, destructor present/absent and value NULL/non-NULL symbolic')),
            ajob('dtor.k2.leak', src, ['-DNK=2', '-DNPOOL=7', '-DLPOOL=2', '-DLEAK=1'], unwind=18, timeout=1500, bounds=dict(keys='2 symbolic keys, additionally all heap nodes released'))]
    if tier == 'thorough':
        jobs += [ajob('dtor.k3', src, ['-DNK=3', '-DNPOOL=10', '-DLPOOL=3'], unwind=18, timeout=7200, mem_gb=24, bounds=dict(keys='3 symbolic keys over all 1024 indices'))]
    return dict(jobs=jobs, assumptions=A_ASSUME + ['tree nodes come from typed static pools standing for real_malloc; the embedded pre-allocation pool is put into its valid state "exhausted" (its bump arithmetic is covered by C10 tree.embedded)',
                                                 'a destructor call with a NULL value is not counted as a violation (the statement does not forbid it)'],
                functions=['myth_tls_tree_set', 'myth_tls_tree_fini', 'myth_tls_call_destructors', 'myth_tls_call_destructors_rec', 'myth_tls_tree_destroy', 'myth_tls_tree_destroy_rec', 'myth_tls_tree_node_free'])

def C10(tier):
    jobs = [ajob('tree.k2', 'harness/C10_tree.c', ['-DNK=2', '-DNPOOL=8', '-DLPOOL=3'], unwind=18, timeout=1500, bounds=dict(keys='2 stored keys + 1 queried key, each symbolic in [-2, 1025]')),
            ajob('keyalloc.seq', 'harness/C10_keyalloc_seq.c', [], unwind=6, timeout=900, bounds=dict(state='arbitrary free list of two cells, all other cells live; 6 operations'))]
    if tier == 'thorough':
        jobs += [ajob('tree.k3', 'harness/C10_tree.c', ['-DNK=3', '-DNPOOL=10', '-DLPOOL=4'], unwind=18, timeout=7200, mem_gb=24, bounds=dict(keys='3 stored keys + 1 queried key'))]
    return dict(jobs=jobs, assumptions=A_ASSUME + ['tree nodes come from typed static pools standing for real_malloc'],
                functions=['myth_tls_tree_get', 'myth_tls_tree_set', 'myth_tls_tree_init', 'myth_tls_key_allocator_alloc', 'myth_tls_key_allocator_dealloc'])

SPECS = {'C04': C04, 'C20': C20, 'C11': C11, 'C10': C10, 'C05': C05, 'C06': C06, 'C07': C07, 'C08': C08, 'C09': C09, 'C14': C14}
