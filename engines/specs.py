"""Per-property job lists (quick / thorough tiers)."""
from vlib import Job

SYNC_DELETE = ['empty_loop', 'myth_spin_lock_body', 'myth_spin_unlock_body', 'myth_get_current_env', 'myth_get_current_env_noinline']
SPIN_SPECIAL = {'myth_spin_lock_body': 'lock', 'myth_spin_unlock_body': 'unlock'}
MODEL_ASSUMPTIONS = [
    'engine B: schedules = all interleavings with at most R scheduling segments per logical thread (round-robin rounds, one solver-chosen preemption point per segment); beyond R is outside the claim',
    'pre-emption granularity preempt=sync: volatile/atomic accesses, CAS, fences and harness-model calls are visible points; plain accesses are assumed data-race free (lock or hand-off protected)',
    'context switch macros, run queue and current-worker accessor are replaced by the harness model (model/verif_model.h); the real asm is verified in C03, the real deque in C02',
    'myth_spin_lock_body/unlock_body are modelled as blocking atomic acquire/release (the real spinlock is verified in C02 spinlock harness); empty_loop is a no-op',
    'every runnable thread gets its own worker (superset of the interleavings of any real worker count)',
    'malloc/mmap never fail (--no-malloc-may-fail)',
]

def bjob(name, src, threads, rounds, defs=(), preempt='sync', tso=False, timeout=1500, mem_gb=10, extra_cfg=None, unwind=4, plain=('verif_init', 'verif_final'), delete=SYNC_DELETE, special=SPIN_SPECIAL, note='', bounds=None):
    cfg = dict(threads=list(threads), plain=list(plain), rounds=rounds, opts=dict(preempt=preempt, tso=tso),
               special=dict(special), env_model='verif_env_of_tid')
    if extra_cfg: cfg.update(extra_cfg)
    b = dict(threads=len(threads), rounds=rounds, preempt=preempt, memory_model='x86-TSO(depth 1)' if tso else 'SC', unwind=unwind)
    if bounds: b.update(bounds)
    return Job(name, 'B', src=src, defs=list(defs), cbmc=['--unwind', str(unwind)], cfg=cfg, delete=list(delete), timeout=timeout, mem_gb=mem_gb, bounds=b, note=note)

def C04(tier):
    src = 'harness/C04_mutex.c'
    jobs = [
        bjob('mutex.lock2.r4', src, ['t0', 't1'], 4, ['-DVN=2', '-DMODE=0']),
        bjob('mutex.trylock.r3', src, ['t0', 't1'], 3, ['-DVN=2', '-DMODE=1']),
        bjob('mutex.holder_never_unlocks.r3', src, ['t0', 't1'], 3, ['-DVN=2', '-DMODE=2'], extra_cfg=dict(allow_deadlock=True)),
    ]
    if tier == 'thorough':
        jobs += [
            bjob('mutex.lock3.r4', src, ['t0', 't1', 't2'], 4, ['-DVN=3', '-DMODE=0'], timeout=3600),
            bjob('mutex.lock2x2.r5', src, ['t0', 't1'], 5, ['-DVN=2', '-DMODE=3'], timeout=3600),
            bjob('mutex.lock2.r3.all', src, ['t0', 't1'], 3, ['-DVN=2', '-DMODE=0'], preempt='all', timeout=3600),
        ]
    return dict(jobs=jobs, assumptions=MODEL_ASSUMPTIONS,
                functions=['myth_mutex_lock_body', 'myth_mutex_trylock_body', 'myth_mutex_unlock_body', 'myth_mutex_clear_lock_bit',
                           'myth_block_on_queue', 'myth_block_on_queue_cb', 'myth_wake_one_from_queue', 'myth_sleep_queue_enq', 'myth_sleep_queue_deq'])

SPECS = {'C04': C04}
