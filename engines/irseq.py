#!/usr/bin/env python3
"""Prototype: LLVM-14 IR (typed pointers) -> C translator, plain mode and
round-robin sequentialised mode.  Throw-away feasibility probe."""
import re, sys, json

# ---------------------------------------------------------------- types
class Ty:
    pass
class IntT(Ty):
    def __init__(s, n): s.n = n
    def c(s): return {1: 'uint8_t', 8: 'uint8_t', 16: 'uint16_t', 32: 'uint32_t', 64: 'uint64_t'}[s.n]
    def sc(s): return {1: 'int8_t', 8: 'int8_t', 16: 'int16_t', 32: 'int32_t', 64: 'int64_t'}[s.n]
    def __repr__(s): return 'i%d' % s.n
class VoidT(Ty):
    def c(s): return 'void'
    def __repr__(s): return 'void'
class FloatT(Ty):
    def __init__(s, k): s.k = k
    def c(s): return {'float': 'float', 'double': 'double'}[s.k]
    def __repr__(s): return s.k
class PtrT(Ty):
    def __init__(s, to): s.to = to
    def c(s):
        if isinstance(s.to, FuncT): return s.to.cptr()
        if isinstance(s.to, VoidT) or (isinstance(s.to, IntT) and s.to.n == 8): return 'uint8_t *'
        return s.to.c() + ' *'
    def __repr__(s): return '%r*' % s.to
class ArrT(Ty):
    def __init__(s, n, el): s.n = n; s.el = el
    def c(s): return 'struct A_%d_%s' % (s.n, mangle(repr(s.el)))
    def __repr__(s): return '[%d x %r]' % (s.n, s.el)
class StructT(Ty):
    def __init__(s, name): s.name = name; s.fields = None; s.packed = False
    def c(s): return 'struct S_' + mangle(s.name)
    def __repr__(s): return '%' + s.name
class LitStructT(Ty):
    def __init__(s, fields, packed): s.fields = fields; s.packed = packed
    def c(s): return 'struct L_' + mangle(','.join(repr(f) for f in s.fields)) + ('_p' if s.packed else '')
    def __repr__(s): return '{' + ','.join(repr(f) for f in s.fields) + '}'
class FuncT(Ty):
    def __init__(s, ret, args, va): s.ret = ret; s.args = args; s.va = va
    def cptr(s): return 'FP_' + mangle(repr(s))
    def c(s): return 'void'
    def __repr__(s): return '%r(%s%s)' % (s.ret, ','.join(repr(a) for a in s.args), ',...' if s.va else '')

def mangle(x):
    return re.sub(r'[^A-Za-z0-9_]', lambda m: '_%02x' % ord(m.group(0)), x)

class Tok:
    def __init__(s, text): s.t = text; s.i = 0
    def ws(s):
        while s.i < len(s.t) and s.t[s.i] in ' \t': s.i += 1
    def peek(s, k=1): s.ws(); return s.t[s.i:s.i + k]
    def eat(s, lit):
        s.ws()
        if s.t.startswith(lit, s.i):
            s.i += len(lit); return True
        return False
    def expect(s, lit):
        if not s.eat(lit): raise SyntaxError('expected %r at %r' % (lit, s.t[s.i:s.i + 40]))
    def word(s):
        s.ws()
        m = re.compile(r'[A-Za-z_.$][A-Za-z0-9_.$]*').match(s.t, s.i)
        if not m: return None
        s.i = m.end(); return m.group(0)
    def rest(s): return s.t[s.i:]

class Module:
    def __init__(s):
        s.structs = {}; s.globals = {}; s.funcs = {}; s.decls = {}; s.arrs = {}; s.lits = {}; s.fts = {}
    def parse_type(s, tk):
        tk.ws()
        t = None
        if tk.eat('void'): t = VoidT()
        elif tk.eat('double'): t = FloatT('double')
        elif tk.eat('float'): t = FloatT('float')
        elif tk.eat('opaque'): t = VoidT()
        elif tk.peek() == 'i' and re.match(r'i\d+', tk.rest()):
            m = re.match(r'i(\d+)', tk.rest()); tk.i += m.end(); t = IntT(int(m.group(1)))
        elif tk.peek() == '%':
            m = re.match(r'%("([^"]*)"|[A-Za-z0-9_.$]+)', tk.rest()); tk.i += m.end()
            name = m.group(2) if m.group(2) is not None else m.group(1)
            t = s.structs.setdefault(name, StructT(name))
        elif tk.peek() == '[':
            tk.expect('['); m = re.match(r'\s*(\d+)\s*x', tk.rest()); tk.i += m.end()
            el = s.parse_type(tk); tk.expect(']'); t = ArrT(int(m.group(1)), el); s.arrs[t.c()] = t
        elif tk.peek(2) == '<{' or tk.peek() == '{':
            packed = tk.eat('<'); tk.expect('{'); fs = []
            if not tk.eat('}'):
                while True:
                    fs.append(s.parse_type(tk))
                    if tk.eat('}'): break
                    tk.expect(',')
            if packed: tk.expect('>')
            t = LitStructT(fs, packed); s.lits[t.c()] = t
        else:
            raise SyntaxError('type? ' + tk.rest()[:40])
        while True:
            tk.ws()
            if tk.eat('*'):
                t = PtrT(t)
            elif tk.peek() == '(':
                tk.expect('('); args = []; va = False
                if not tk.eat(')'):
                    while True:
                        if tk.eat('...'): va = True
                        else: args.append(s.parse_type(tk))
                        if tk.eat(')'): break
                        tk.expect(',')
                t = FuncT(t, args, va); s.fts[t.cptr()] = t
            else: break
        return t

M = Module()

PARAM_ATTRS = ['noundef', 'nonnull', 'nocapture', 'readonly', 'readnone', 'writeonly', 'noalias', 'signext', 'zeroext',
               'returned', 'immarg', 'nofree', 'inreg', 'byval', 'sret', 'swiftself', 'nest']
def skip_attrs(tk):
    while True:
        tk.ws()
        m = re.match(r'(align \d+\b|dereferenceable(_or_null)?\(\d+\)|elementtype\([^)]*\)|byval\([^)]*\)|sret\([^)]*\)|(' + '|'.join(PARAM_ATTRS) + r')\b)', tk.rest())
        if not m: break
        tk.i += m.end()

class Val:
    def __init__(s, kind, ty, v=None, ops=None): s.kind = kind; s.ty = ty; s.v = v; s.ops = ops

def parse_value(tk, ty):
    tk.ws()
    if tk.peek() == '%':
        m = re.match(r'%("([^"]*)"|[A-Za-z0-9_.$]+)', tk.rest()); tk.i += m.end()
        return Val('local', ty, m.group(2) if m.group(2) is not None else m.group(1))
    if tk.peek() == '@':
        m = re.match(r'@("([^"]*)"|[A-Za-z0-9_.$]+)', tk.rest()); tk.i += m.end()
        return Val('global', ty, m.group(2) if m.group(2) is not None else m.group(1))
    m = re.match(r'-?\d+', tk.rest())
    if m and not isinstance(ty, FloatT):
        tk.i += m.end(); return Val('int', ty, int(m.group(0)))
    for w, k in (('null', 'null'), ('undef', 'undef'), ('poison', 'undef'), ('zeroinitializer', 'zero'), ('true', 'true'), ('false', 'false')):
        if re.match(w + r'\b', tk.rest()):
            tk.i += len(w); return Val(k, ty)
    for op in ('getelementptr', 'bitcast', 'ptrtoint', 'inttoptr'):
        if re.match(op + r'\b', tk.rest()):
            tk.i += len(op); tk.eat('inbounds'); tk.expect('(')
            if op == 'getelementptr':
                M.parse_type(tk); tk.expect(',')
                ops = []
                while True:
                    tk.eat('inrange'); t = M.parse_type(tk); tk.eat('inrange'); ops.append(parse_value(tk, t))
                    if tk.eat(')'): break
                    tk.expect(',')
                return Val('cgep', ty, ops=ops)
            else:
                t = M.parse_type(tk); v = parse_value(tk, t); tk.expect('to'); M.parse_type(tk); tk.expect(')')
                return Val('ccast', ty, v=op, ops=[v])
    if tk.peek() in '{[<' or tk.peek(2) == 'c"':
        # aggregate constants: keep raw (prototype)
        if tk.eat('c"'):
            j = tk.t.index('"', tk.i); raw = tk.t[tk.i:j]; tk.i = j + 1
            return Val('cstr', ty, raw)
        opn = tk.peek(); cl = {'{': '}', '[': ']', '<': '>'}[opn]
        packed = False
        if opn == '<' and tk.peek(2) == '<{': tk.expect('<'); packed = True; opn = '{'; cl = '}'
        tk.expect(opn); ops = []
        if not tk.eat(cl):
            while True:
                t = M.parse_type(tk); ops.append(parse_value(tk, t))
                if tk.eat(cl): break
                tk.expect(',')
        if packed: tk.expect('>')
        return Val('agg', ty, ops=ops)
    m = re.match(r'(0x[0-9A-Fa-f]+|-?[0-9.]+e[+-]?\d+|-?[0-9.]+)', tk.rest())
    if m: tk.i += m.end(); return Val('fp', ty, m.group(0))
    raise SyntaxError('value? ' + tk.rest()[:60])

class Instr:
    pass
class Func:
    def __init__(s, name, ret, params): s.name = name; s.ret = ret; s.params = params; s.blocks = []; s.va = False
class Block:
    def __init__(s, name): s.name = name; s.ins = []

def parse_module(text):
    lines = text.split('\n')
    i = 0
    # first pass: struct types
    for ln in lines:
        m = re.match(r'^%("([^"]*)"|[A-Za-z0-9_.$]+) = type (.*)$', ln)
        if m:
            name = m.group(2) if m.group(2) is not None else m.group(1)
            M.structs.setdefault(name, StructT(name))
    for ln in lines:
        m = re.match(r'^%("([^"]*)"|[A-Za-z0-9_.$]+) = type (.*)$', ln)
        if m:
            name = m.group(2) if m.group(2) is not None else m.group(1)
            st = M.structs[name]; body = m.group(3).strip()
            if body == 'opaque': st.fields = None; continue
            t = M.parse_type(Tok(body))
            st.fields = t.fields; st.packed = t.packed
    cur = None
    while i < len(lines):
        ln = lines[i]; i += 1
        if cur is None:
            m = re.match(r'^@("([^"]*)"|[A-Za-z0-9_.$]+) = (.*)$', ln)
            if m:
                name = m.group(2) if m.group(2) is not None else m.group(1)
                rest = m.group(3)
                tls = 'thread_local' in rest.split(' global ')[0] if ' global ' in rest else False
                mm = re.match(r'((?:[a-z_]+(?:\([a-z]+\))? )*?)(global|constant) (.*)$', rest)
                if not mm: continue
                tk = Tok(mm.group(3)); ty = M.parse_type(tk)
                tk.ws(); init = None
                if not tk.rest().startswith(',') and tk.rest().strip():
                    try: init = parse_value(tk, ty)
                    except SyntaxError as e: init = Val('zero', ty)
                ext = 'external' in mm.group(1)
                M.globals[name] = dict(ty=ty, init=init, tls=tls, const=mm.group(2) == 'constant', ext=ext)
                continue
            m = re.match(r'^(declare|define) (.*)$', ln)
            if m:
                tk = Tok(m.group(2))
                # skip linkage etc. until type parses followed by @
                while True:
                    save = tk.i
                    try:
                        skip_attrs(tk); ty = M.parse_type(tk); tk.ws()
                        if tk.peek() == '@': break
                        tk.i = save
                    except SyntaxError:
                        tk.i = save
                    w = tk.word()
                    if w is None: raise SyntaxError(ln)
                    if tk.peek() == '(' and w in ('dereferenceable', 'dereferenceable_or_null', 'align'):
                        j = tk.t.index(')', tk.i); tk.i = j + 1
                mm = re.match(r'@("([^"]*)"|[A-Za-z0-9_.$]+)', tk.rest()); tk.i += mm.end()
                name = mm.group(2) if mm.group(2) is not None else mm.group(1)
                tk.expect('('); params = []; va = False
                if not tk.eat(')'):
                    while True:
                        if tk.eat('...'): va = True
                        else:
                            pt = M.parse_type(tk); skip_attrs(tk); tk.ws()
                            pn = None
                            if tk.peek() == '%':
                                pm = re.match(r'%("([^"]*)"|[A-Za-z0-9_.$]+)', tk.rest()); tk.i += pm.end()
                                pn = pm.group(2) if pm.group(2) is not None else pm.group(1)
                            params.append((pt, pn))
                        if tk.eat(')'): break
                        tk.expect(',')
                f = Func(name, ty, params); f.va = va
                if m.group(1) == 'declare': M.decls[name] = f
                else:
                    M.funcs[name] = f; cur = f
                    b = Block(str(len(params))) if all(p[1] is None or p[1].isdigit() for p in params) else Block('entry')
                    # unnamed entry block gets the next number after params
                    b.name = '%ENTRY%'; f.blocks.append(b)
                continue
        else:
            if ln.startswith('}'):
                cur = None; continue
            m = re.match(r'^("([^"]*)"|[A-Za-z0-9_.$]+):', ln)
            if m:
                nm = m.group(2) if m.group(2) is not None else m.group(1)
                if len(cur.blocks) == 1 and cur.blocks[0].name == '%ENTRY%' and not cur.blocks[0].ins:
                    cur.blocks[0].name = nm; continue
                b = Block(nm); cur.blocks.append(b); continue
            s = ln.strip()
            if not s or s.startswith(';'): continue
            # switch spans lines
            if s.startswith('switch') and not s.rstrip().endswith(']'):
                while not lines[i - 1].strip().endswith(']'):
                    s += ' ' + lines[i].strip(); i += 1
            cur.blocks[-1].ins.append(s)

# ---------------------------------------------------------------- emit
class Emit:
    def __init__(s, fn, tid=None, seq=False):
        s.f = fn; s.tid = tid; s.seq = seq; s.out = []; s.regs = {}; s.pfx = ('t%d_' % tid) if seq else ''
        s.nvis = 0; s.resume = []; s.allocas = []
    def reg(s, name, ty=None):
        key = mangle(name)
        if ty is not None and key not in s.regs: s.regs[key] = ty
        return s.pfx + 'r_' + key
    def cval(s, v):
        ty = v.ty
        if v.kind == 'local': return s.reg(v.v)
        if v.kind == 'global':
            g = M.globals.get(v.v)
            if g is not None:
                USEDG.add(v.v)
                if g['tls'] and s.seq: return '(&G_%s[%d])' % (mangle(v.v), s.tid)
                if g['tls']: return '(&G_%s[CUR_TID])' % mangle(v.v)
                return '(&G_%s)' % mangle(v.v)
            REFERENCED.add(v.v)
            return '(%s)&%s' % (ty.c(), cfname(v.v))
        if v.kind == 'int':
            n = v.v & ((1 << ty.n) - 1)
            return '((%s)%dULL)' % (ty.c(), n)
        if v.kind in ('null', 'zero', 'false'): return '((%s)0)' % ty.c() if not isinstance(ty, (StructT, ArrT, LitStructT)) else '(%s){0}' % ty.c()
        if v.kind == 'true': return '((uint8_t)1)'
        if v.kind == 'undef': return '((%s)0)' % ty.c() if not isinstance(ty, (StructT, ArrT, LitStructT)) else '(%s){0}' % ty.c()
        if v.kind == 'ccast':
            return '((%s)%s)' % (ty.c(), s.cval(v.ops[0]))
        if v.kind == 'cgep':
            return '((%s)%s)' % (ty.c(), s.gep(v.ops[0], v.ops[1:]))
        if v.kind == 'fp': return '((%s)%s)' % (ty.c(), v.v if not v.v.startswith('0x') else '0.0')
        raise NotImplementedError(v.kind)
    def gep(s, base, idx):
        t = base.ty.to
        e = '%s[%s]' % (s.cval(base), s.sidx(idx[0]))
        for ix in idx[1:]:
            if isinstance(t, (StructT, LitStructT)):
                k = ix.v; e += '.f%d' % k; t = t.fields[k]
            elif isinstance(t, ArrT):
                e += '.a[%s]' % s.sidx(ix); t = t.el
            else: raise NotImplementedError('gep into %r' % t)
        return '(&%s)' % e
    def sidx(s, v):
        if v.kind == 'int': return str(v.v)
        return '(%s)%s' % (v.ty.sc(), s.cval(v))

CXX_ALLOC = {'_Znwm': 'malloc', '_Znam': 'malloc', '_ZdlPv': 'free', '_ZdaPv': 'free'}
def cfname(n): return CXX_ALLOC.get(n) or ('F_' + mangle(n))
def PROG(tid, seq): return ' VERIF_PROG = 1;' if seq else ''

BINOPS = {'add': '+', 'sub': '-', 'mul': '*', 'and': '&', 'or': '|', 'xor': '^', 'shl': '<<', 'lshr': '>>', 'udiv': '/', 'urem': '%'}
ICMP = {'eq': ('==', 0), 'ne': ('!=', 0), 'ugt': ('>', 0), 'uge': ('>=', 0), 'ult': ('<', 0), 'ule': ('<=', 0),
        'sgt': ('>', 1), 'sge': ('>=', 1), 'slt': ('<', 1), 'sle': ('<=', 1)}

def is_local_ptr(e, v, localptrs):
    return v.kind == 'local' and v.v in localptrs


def cross_yield_live(f, backedges):
    """registers that may be live at a point where the logical thread can yield (superset: before every memory access / call,
    and across every back-edge). Only these need static storage; everything else becomes a local of run_tX."""
    NAME = r'%("([^"]*)"|[A-Za-z0-9_.$]+)'
    defs = set(p[1] for p in f.params if p[1])
    ins_info = {}
    for b in f.blocks:
        for s in b.ins:
            m = re.match(NAME + r' = ', s)
            if m: defs.add(m.group(2) if m.group(2) is not None else m.group(1))
    def toks(text):
        out = []
        for m in re.finditer(NAME, text):
            n = m.group(2) if m.group(2) is not None else m.group(1)
            if n in defs: out.append(n)
        return out
    succs = {}; info = {}; phis = {}
    for b in f.blocks:
        lst = []
        for s in b.ins:
            s = re.sub(r',\s*![a-zA-Z_.]+ ![0-9]+', '', s)
            m = re.match(NAME + r' = (.*)$', s)
            d = None; rhs = s
            if m: d = m.group(2) if m.group(2) is not None else m.group(1); rhs = m.group(3)
            op = rhs.split(None, 1)[0] if rhs.split() else ''
            if op == 'phi':
                inc = re.findall(r'\[\s*(.*?),\s*' + NAME + r'\s*\]', rhs)
                phis.setdefault(b.name, []).append((d, [(toks(v), (q if q else p)) for (v, p, q) in inc]))
                continue
            rhs_nolabel = re.sub(r'label ' + NAME, '', rhs)
            uses = toks(rhs_nolabel)
            is_yield = op in ('load', 'store', 'cmpxchg', 'atomicrmw', 'fence', 'call', 'tail', 'notail', 'musttail')
            lst.append((d, uses, is_yield))
        info[b.name] = lst
        last = b.ins[-1] if b.ins else ''
        succs[b.name] = [x[1] if x[1] else x[0] for x in re.findall(r'label ' + NAME, last)]
    live_in = {b.name: set() for b in f.blocks}; live_out = {b.name: set() for b in f.blocks}
    def phi_defs(n): return set(d for d, _ in phis.get(n, []))
    def edge_uses(pred, succ):
        u = set()
        for d, inc in phis.get(succ, []):
            for vt, p in inc:
                if p == pred: u.update(vt)
        return u
    changed = True
    while changed:
        changed = False
        for b in reversed(f.blocks):
            out = set()
            for sname in succs[b.name]:
                if sname in live_in: out |= (live_in[sname] - phi_defs(sname)) | edge_uses(b.name, sname)
            live = set(out)
            for d, uses, _ in reversed(info[b.name]):
                if d: live.discard(d)
                live.update(uses)
            live |= set()  # phi defs are defined at block entry
            if out != live_out[b.name] or live != live_in[b.name]:
                live_out[b.name] = out; live_in[b.name] = live; changed = True
    keep = set()
    for b in f.blocks:
        live = set(live_out[b.name])
        for sname in succs[b.name]:
            if (b.name, sname) in backedges and sname in live_in:
                keep |= live_in[sname] | phi_defs(sname)
        for d, uses, is_yield in reversed(info[b.name]):
            if d: live.discard(d)
            live.update(uses)
            if is_yield: keep |= live
    return keep

def translate_function(f, tid=None, seq=False, opts=None):
    opts = opts or {}
    e = Emit(f, tid, seq)
    out = e.out
    # name unnamed entry / numbering
    for (pt, pn) in f.params: e.reg(pn, pt)
    # find locals derived from alloca (thread-private memory)
    localptrs = set()
    changed = True
    allins = [(b, s) for b in f.blocks for s in b.ins]
    while changed:
        changed = False
        for b, s in allins:
            m = re.match(r'%("([^"]*)"|[A-Za-z0-9_.$]+) = (alloca|bitcast|getelementptr)\b(.*)$', s)
            if not m: continue
            nm = m.group(2) if m.group(2) is not None else m.group(1)
            if nm in localptrs: continue
            if m.group(3) == 'alloca': localptrs.add(nm); changed = True
            else:
                srcs = re.findall(r'%("([^"]*)"|[A-Za-z0-9_.$]+)', m.group(4))
                srcs = [a[1] if a[1] else a[0] for a in srcs]
                if m.group(3) == 'bitcast' and srcs and srcs[0] in localptrs: localptrs.add(nm); changed = True
                if m.group(3) == 'getelementptr':
                    # first %local after the type is the base pointer
                    tk = Tok(m.group(4)); tk.eat('inbounds'); M.parse_type(tk); tk.expect(','); bt = M.parse_type(tk); bv = parse_value(tk, bt)
                    if bv.kind == 'local' and bv.v in localptrs: localptrs.add(nm); changed = True
    # block order (reverse post-order) + true back edges (DFS ancestors)
    succs = {}
    for b in f.blocks:
        last = b.ins[-1] if b.ins else ''
        succs[b.name] = [x[1] if x[1] else x[0] for x in re.findall(r'label %("([^"]*)"|[A-Za-z0-9_.$]+)', last)]
    backedges = set(); post = []; color = {}
    def dfs(n):
        stack = [(n, iter(succs.get(n, [])))]; color[n] = 1
        while stack:
            node, it = stack[-1]
            adv = False
            for m2 in it:
                if color.get(m2, 0) == 0:
                    color[m2] = 1; stack.append((m2, iter(succs.get(m2, [])))); adv = True; break
                elif color[m2] == 1: backedges.add((node, m2))
            if not adv:
                color[node] = 2; post.append(node); stack.pop()
    dfs(f.blocks[0].name)
    e.keep = cross_yield_live(f, backedges) if seq else None
    order = list(reversed(post))
    byname = {b.name: b for b in f.blocks}
    f.blocks = [byname[n] for n in order]
    bidx = {b.name: i for i, b in enumerate(f.blocks)}
    def lbl(n): return '%sB_%s' % (e.pfx, mangle(n))
    phis = {}  # block -> list of (reg, ty, [(val, pred)])
    for b in f.blocks:
        for s in b.ins:
            m = re.match(r'%("([^"]*)"|[A-Za-z0-9_.$]+) = phi (.*)$', s)
            if m:
                nm = m.group(2) if m.group(2) is not None else m.group(1)
                tk = Tok(m.group(3)); ty = M.parse_type(tk); inc = []
                while True:
                    tk.expect('['); v = parse_value(tk, ty); tk.expect(','); pv = parse_value(tk, None); tk.expect(']')
                    inc.append((v, pv.v))
                    if not tk.eat(','): break
                e.reg(nm, ty); phis.setdefault(b.name, []).append((nm, ty, inc))
    def goto(cur, target):
        code = []
        # parallel phi assignment via temps
        ps = phis.get(target, [])
        tmp = []
        for k, (nm, ty, inc) in enumerate(ps):
            for v, pred in inc:
                if pred == cur or (cur == '%ENTRY%' and pred not in bidx):
                    tmp.append((nm, ty, v)); break
        if len(tmp) > 1:
            code.append('{ ' + ' '.join('%s ph%d = %s;' % (ty.c(), k, e.cval(v)) for k, (nm, ty, v) in enumerate(tmp))
                        + ' ' + ' '.join('%s = ph%d;' % (e.reg(nm), k) for k, (nm, ty, v) in enumerate(tmp)) + ' }')
        elif tmp:
            nm, ty, v = tmp[0]; code.append('%s = %s;' % (e.reg(nm), e.cval(v)))
        if seq and (cur, target) in backedges:
            k = e.nvis; e.nvis += 1; e.resume.append((k, lbl(target)))
            code.append('TH[%d].pc = %d; TH[%d].spin = 1; return; /* back-edge yield: a loop iteration ends the scheduling segment */' % (tid, k, tid))
        else:
            code.append('goto %s;' % lbl(target))
        return ' '.join(code)
    def visible(pre=''):
        """emit a preemption point before a shared access"""
        if not seq: return
        k = e.nvis; e.nvis += 1
        out.append('  if (cs == %d && !TH[%d].held) { TH[%d].pc = %d; return; } %sV_%d: ;' % (k, tid, tid, k, e.pfx, k))
        e.resume.append((k, '%sV_%d' % (e.pfx, k)))
    for b in f.blocks:
        out.append('%s: ;' % lbl(b.name))
        for s in b.ins:
            s = re.sub(r',\s*![a-zA-Z_.]+ ![0-9]+', '', s)
            s = re.sub(r'\s+#\d+\s*$', '', s)
            out.append('  /* %s */' % s.replace('*/', '* /')[:150])
            m = re.match(r'%("([^"]*)"|[A-Za-z0-9_.$]+) = (.*)$', s)
            dst = None
            if m:
                dst = m.group(2) if m.group(2) is not None else m.group(1); s2 = m.group(3)
            else: s2 = s
            tk = Tok(s2); op = tk.word()
            if op == 'phi': continue
            if op == 'alloca':
                ty = M.parse_type(tk)
                e.reg(dst, PtrT(ty))
                if seq:
                    out.append('  { static %s al_%s%s; %s = &al_%s%s; }' % (ty.c(), e.pfx, mangle(dst), e.reg(dst), e.pfx, mangle(dst)))
                else:
                    # plain mode: automatic storage (recursive activations must not share their frames)
                    e.allocas.append((ty, mangle(dst)))
                    out.append('  %s = &al_%s;' % (e.reg(dst), mangle(dst)))
            elif op == 'load':
                atomic = tk.eat('atomic'); vol = tk.eat('volatile')
                ty = M.parse_type(tk); tk.expect(','); pt = M.parse_type(tk); p = parse_value(tk, pt)
                e.reg(dst, ty)
                shared = not is_local_ptr(e, p, localptrs)
                if shared and (vol or atomic or opts.get('preempt', 'all') == 'all'): visible()
                if shared and opts.get('tso') and p.kind in ('cgep', 'global') and isinstance(ty, IntT):
                    loc = TSO_LOCS.setdefault(e.cval(p), len(TSO_LOCS))
                    out.append('  %s = (PEND_V[%d] && PEND_L[%d] == %d) ? (%s)PEND_X[%d] : *%s;' % (e.reg(dst), tid, tid, loc, ty.c(), tid, e.cval(p)))
                else:
                    out.append('  %s = *%s;' % (e.reg(dst), e.cval(p)))
            elif op == 'store':
                atomic = tk.eat('atomic'); vol = tk.eat('volatile')
                ty = M.parse_type(tk); v = parse_value(tk, ty); tk.expect(','); pt = M.parse_type(tk); p = parse_value(tk, pt)
                shared = not is_local_ptr(e, p, localptrs)
                if shared and (vol or atomic or opts.get('preempt', 'all') == 'all'): visible()
                if shared and opts.get('tso') and p.kind in ('cgep', 'global') and isinstance(ty, IntT):
                    loc = TSO_LOCS.setdefault(e.cval(p), len(TSO_LOCS))
                    out.append('  tso_commit(%d); PEND_V[%d] = 1; PEND_L[%d] = %d; PEND_X[%d] = %s;%s' % (tid, tid, tid, loc, tid, e.cval(v), PROG(tid, seq)))
                elif shared and opts.get('tso'):
                    out.append('  tso_commit(%d); *%s = %s;%s' % (tid, e.cval(p), e.cval(v), PROG(tid, seq)))
                else:
                    out.append('  *%s = %s;%s' % (e.cval(p), e.cval(v), PROG(tid, seq) if shared else ''))
            elif op == 'getelementptr':
                tk.eat('inbounds'); M.parse_type(tk); tk.expect(',')
                ops = []
                while True:
                    t = M.parse_type(tk); ops.append(parse_value(tk, t))
                    if not tk.eat(','): break
                # result type
                t = ops[0].ty.to
                for ix in ops[2:]:
                    t = t.fields[ix.v] if isinstance(t, (StructT, LitStructT)) else t.el
                e.reg(dst, PtrT(t))
                out.append('  %s = %s;' % (e.reg(dst), e.gep(ops[0], ops[1:])))
            elif op in ('bitcast', 'ptrtoint', 'inttoptr', 'trunc', 'zext', 'sext'):
                ty = M.parse_type(tk); v = parse_value(tk, ty); tk.expect('to'); ty2 = M.parse_type(tk)
                e.reg(dst, ty2)
                if op == 'sext':
                    if ty.n == 1: out.append('  %s = (%s)(%s ? -1 : 0);' % (e.reg(dst), ty2.c(), e.cval(v)))
                    else: out.append('  %s = (%s)(%s)(%s)%s;' % (e.reg(dst), ty2.c(), ty2.sc(), ty.sc(), e.cval(v)))
                elif op == 'trunc' and ty2.n == 1: out.append('  %s = (uint8_t)(%s & 1);' % (e.reg(dst), e.cval(v)))
                else: out.append('  %s = (%s)%s;' % (e.reg(dst), ty2.c(), e.cval(v)))
            elif op in BINOPS or op in ('sdiv', 'srem', 'ashr'):
                for fl in ('nuw', 'nsw', 'exact'): tk.eat(fl)
                for fl in ('nuw', 'nsw', 'exact'): tk.eat(fl)
                ty = M.parse_type(tk); a = parse_value(tk, ty); tk.expect(','); b2 = parse_value(tk, ty)
                e.reg(dst, ty)
                if op in BINOPS:
                    out.append('  %s = (%s)(%s %s %s);' % (e.reg(dst), ty.c(), e.cval(a), BINOPS[op], e.cval(b2)))
                else:
                    cop = {'sdiv': '/', 'srem': '%', 'ashr': '>>'}[op]
                    out.append('  %s = (%s)((%s)%s %s (%s)%s);' % (e.reg(dst), ty.c(), ty.sc(), e.cval(a), cop, ty.sc() if op != 'ashr' else ty.c(), e.cval(b2)))
            elif op == 'icmp':
                pred = tk.word(); ty = M.parse_type(tk); a = parse_value(tk, ty); tk.expect(','); b2 = parse_value(tk, ty)
                e.reg(dst, IntT(1)); cop, sg = ICMP[pred]
                if sg and isinstance(ty, IntT):
                    out.append('  %s = ((%s)%s %s (%s)%s);' % (e.reg(dst), ty.sc(), e.cval(a), cop, ty.sc(), e.cval(b2)))
                else:
                    out.append('  %s = (%s %s %s);' % (e.reg(dst), e.cval(a), cop, e.cval(b2)))
            elif op == 'select':
                t1 = M.parse_type(tk); c = parse_value(tk, t1); tk.expect(','); ty = M.parse_type(tk); a = parse_value(tk, ty); tk.expect(','); M.parse_type(tk); b2 = parse_value(tk, ty)
                e.reg(dst, ty); out.append('  %s = %s ? %s : %s;' % (e.reg(dst), e.cval(c), e.cval(a), e.cval(b2)))
            elif op == 'br':
                if tk.eat('label'):
                    t = parse_value(tk, None); out.append('  ' + goto(b.name, t.v))
                else:
                    t1 = M.parse_type(tk); c = parse_value(tk, t1); tk.expect(','); tk.expect('label'); a = parse_value(tk, None); tk.expect(','); tk.expect('label'); b2 = parse_value(tk, None)
                    out.append('  if (%s) { %s } else { %s }' % (e.cval(c), goto(b.name, a.v), goto(b.name, b2.v)))
            elif op == 'ret':
                ty = M.parse_type(tk)
                if seq: out.append('  TH[%d].done = 1; TH[%d].pc = -1; VERIF_PROG = 1; return;' % (tid, tid))
                elif isinstance(ty, VoidT): out.append('  return;')
                else: out.append('  return %s;' % e.cval(parse_value(tk, ty)))
            elif op == 'unreachable':
                out.append('  __CPROVER_assume(0);' + (' return;' if seq else ''))
            elif op == 'cmpxchg':
                tk.eat('weak'); tk.eat('volatile')
                pt = M.parse_type(tk); p = parse_value(tk, pt); tk.expect(','); ty = M.parse_type(tk); old = parse_value(tk, ty); tk.expect(','); M.parse_type(tk); new = parse_value(tk, ty)
                lt = LitStructT([ty, IntT(1)], False); M.lits[lt.c()] = lt
                e.reg(dst, lt); visible()
                if opts.get('tso'): out.append('  tso_commit(%d);' % tid)
                out.append('  { %s o = *%s; %s.f0 = o; %s.f1 = (o == %s); if (o == %s) { *%s = %s;%s } }' % (ty.c(), e.cval(p), e.reg(dst), e.reg(dst), e.cval(old), e.cval(old), e.cval(p), e.cval(new), PROG(tid, seq)))
            elif op == 'atomicrmw':
                tk.eat('volatile'); rop = tk.word(); pt = M.parse_type(tk); p = parse_value(tk, pt); tk.expect(','); ty = M.parse_type(tk); v = parse_value(tk, ty)
                e.reg(dst, ty); visible()
                if opts.get('tso'): out.append('  tso_commit(%d);' % tid)
                cop = {'add': '+', 'sub': '-', 'and': '&', 'or': '|', 'xor': '^'}.get(rop)
                if rop == 'xchg': out.append('  %s = *%s; *%s = %s;%s' % (e.reg(dst), e.cval(p), e.cval(p), e.cval(v), PROG(tid, seq)))
                else: out.append('  %s = *%s; *%s = (%s)(%s %s %s);%s' % (e.reg(dst), e.cval(p), e.cval(p), ty.c(), e.reg(dst), cop, e.cval(v), PROG(tid, seq)))
            elif op == 'fence':
                if opts.get('tso'): visible(); out.append('  tso_commit(%d);' % tid)
            elif op == 'extractvalue':
                ty = M.parse_type(tk); v = parse_value(tk, ty); tk.expect(','); k = int(tk.rest().strip())
                e.reg(dst, ty.fields[k]); out.append('  %s = %s.f%d;' % (e.reg(dst), e.cval(v), k))
            elif op in ('call', 'tail', 'notail', 'musttail'):
                if op != 'call': tk.word()
                while True:
                    save = tk.i; w = tk.word()
                    if w in ('fastcc', 'ccc', 'nnan', 'ninf', 'nsz', 'arcp', 'contract', 'afn', 'reassoc', 'fast') : continue
                    tk.i = save; break
                skip_attrs(tk)
                rty = M.parse_type(tk)
                if isinstance(rty, PtrT) and isinstance(rty.to, FuncT): rty = rty.to.ret  # full fn type given
                if isinstance(rty, FuncT): rty = rty.ret
                tk.ws()
                if tk.eat('asm'):
                    mm = re.match(r'\s*((?:sideeffect|alignstack|inteldialect|unwind)\s+)*"((?:[^"\\]|\\.)*)"\s*,\s*"([^"]*)"', tk.rest()); tk.i += mm.end()
                    tmpl, cons = mm.group(2), mm.group(3)
                    if dst: e.reg(dst, rty)
                    if 'xchg' in tmpl or 'mfence' in tmpl:
                        if opts.get('tso'): visible(); out.append('  tso_commit(%d); /* full fence */' % tid)
                        if dst: out.append('  %s = 0;' % e.reg(dst))
                    elif tmpl.strip() == '' or 'lfence' in tmpl or 'sfence' in tmpl:
                        pass
                    elif 'rdtsc' in tmpl:
                        if dst and isinstance(rty, (LitStructT, StructT)):
                            for fi, ft in enumerate(rty.fields): out.append('  %s.f%d = (%s)VERIF_CHOICE();' % (e.reg(dst), fi, ft.c()))
                        else:
                            out.append('  %s = (%s)VERIF_CHOICE();' % (e.reg(dst), rty.c()) if dst else '  ;')
                    else:
                        out.append('  __CPROVER_assert(0, "VERIF unmodelled inline asm reached (context switch outside the harness model)"); __CPROVER_assume(0);%s' % (' return;' if seq else ''))
                    continue
                callee = parse_value(tk, None); tk.expect('('); args = []
                if not tk.eat(')'):
                    while True:
                        at = M.parse_type(tk); skip_attrs(tk); args.append(parse_value(tk, at))
                        if tk.eat(')'): break
                        tk.expect(',')
                if callee.kind == 'global' and (callee.v.startswith('llvm.lifetime') or callee.v.startswith('llvm.assume') or callee.v.startswith('llvm.dbg') or callee.v.startswith('llvm.experimental.noalias')): continue
                if callee.kind == 'global' and callee.v.startswith('llvm.mem'):
                    fn = {'llvm.memset': 'memset', 'llvm.memcpy': 'memcpy', 'llvm.memmove': 'memmove'}[callee.v[:11] if callee.v[5:11] != 'memmov' else 'llvm.memmove'] if False else ('memset' if 'memset' in callee.v else 'memcpy' if 'memcpy' in callee.v else 'memmove')
                    visible()
                    out.append('  %s((void*)%s, %s%s, %s);' % (fn, e.cval(args[0]), '(void*)' if fn != 'memset' else '', e.cval(args[1]), e.cval(args[2])))
                    continue
                if callee.kind == 'global' and callee.v == '__assert_fail':
                    msg = ''
                    try:
                        a0 = args[0]
                        while a0.kind in ('cgep', 'ccast'): a0 = a0.ops[0]
                        g0 = M.globals.get(a0.v)
                        if g0 and g0['init'] is not None and g0['init'].kind == 'cstr':
                            msg = re.sub(r'\\[0-9A-Fa-f]{2}', '', g0['init'].v)
                            msg = re.sub(r'[^A-Za-z0-9_ <>=!&|()\[\].+*/-]', '?', msg)[:80]
                    except Exception: pass
                    out.append('  __CPROVER_assert(0, "VERIF real-code assert failed: %s"); __CPROVER_assume(0);' % msg); continue
                if callee.kind == 'global' and SPECIAL.get(callee.v) in ('lock', 'unlock') and not seq:
                    # inside an atomic plain function (initialisation): no scheduling
                    out.append('  %s->f0 = %d;' % (e.cval(args[0]), 1 if SPECIAL.get(callee.v) == 'lock' else 0))
                    if dst: e.reg(dst, rty); out.append('  %s = 0;' % e.reg(dst))
                    continue
                if callee.kind == 'global' and SPECIAL.get(callee.v) == 'lock':
                    k = e.nvis; e.nvis += 1; e.resume.append((k, '%sV_%d' % (e.pfx, k)))
                    out.append('  if (cs == %d && !TH[%d].held) { TH[%d].pc = %d; return; } %sV_%d: if (%s->f0 != 0) { TH[%d].pc = %d; TH[%d].blocked = 1; return; } TH[%d].blocked = 0; %s->f0 = 1; TH[%d].held++;' % (k, tid, tid, k, e.pfx, k, e.cval(args[0]), tid, k, tid, tid, e.cval(args[0]), tid))
                    if dst: e.reg(dst, rty); out.append('  %s = 0;' % e.reg(dst))
                    continue
                if callee.kind == 'global' and SPECIAL.get(callee.v) == 'unlock':
                    out.append('  %s->f0 = 0; TH[%d].held--;' % (e.cval(args[0]), tid))
                    if dst: e.reg(dst, rty); out.append('  %s = 0;' % e.reg(dst))
                    continue
                if callee.kind == 'global' and callee.v == 'verif_park':
                    k = e.nvis; e.nvis += 1; e.resume.append((k, '%sV_%d' % (e.pfx, k)))
                    out.append('  %sV_%d: if (!*%s) { TH[%d].pc = %d; TH[%d].blocked = 1; return; } TH[%d].blocked = 0;%s' % (e.pfx, k, e.cval(args[0]), tid, k, tid, tid, PROG(tid, seq)))
                    continue
                if callee.kind == 'global' and callee.v.startswith('nondet_'):
                    e.reg(dst, rty)
                    out.append('  %s = (%s)VERIF_CHOICE();' % (e.reg(dst), rty.c())); continue
                if callee.kind == 'global' and callee.v == 'verif_stop' and not seq:
                    # the logical thread ends inside a non-inlined callee: propagate like an exception up to the thread function
                    out.append('  VERIF_STOP_REQ = 1; %s' % ('return;' if isinstance(f.ret, VoidT) else 'return (%s)0;' % f.ret.c() if not isinstance(f.ret, (StructT, LitStructT, ArrT)) else 'return (%s){0};' % f.ret.c())); continue
                if callee.kind == 'global' and callee.v == 'verif_stop':
                    out.append('  TH[%d].done = 1; TH[%d].pc = -1; VERIF_PROG = 1; return;' % (tid, tid)); continue
                if callee.kind == 'global' and callee.v == 'verif_yield':
                    if seq:
                        k = e.nvis; e.nvis += 1; e.resume.append((k, '%sV_%d' % (e.pfx, k)))
                        out.append('  TH[%d].pc = %d; TH[%d].spin = 1; return; %sV_%d: ;' % (tid, k, tid, e.pfx, k))
                    continue
                if callee.kind == 'global' and callee.v in ('abort', 'exit', '_exit'):
                    out.append('  __CPROVER_assert(0, "VERIF real code reached %s()"); __CPROVER_assume(0);' % callee.v); continue
                if callee.kind == 'global' and callee.v in ('__cxa_pure_virtual',):
                    out.append('  __CPROVER_assert(0, "VERIF pure virtual call"); __CPROVER_assume(0);'); continue
                if callee.kind == 'global' and callee.v in TRAP:
                    out.append('  __CPROVER_assert(0, "VERIF harness model: unexpected call to %s (path not modelled)"); __CPROVER_assume(0);%s' % (callee.v, ' return;' if seq else ''))
                    if dst and not isinstance(rty, VoidT):
                        e.reg(dst, rty)
                    continue
                if callee.kind == 'global' and callee.v in NOOP:
                    if dst and not isinstance(rty, VoidT):
                        e.reg(dst, rty); out.append('  %s = 0;' % e.reg(dst))
                    continue
                if callee.kind == 'global' and callee.v == 'verif_check':
                    out.append('  __CPROVER_assert(%s, "VERIF %s");' % (e.cval(args[0]), str_of_global_arg(args[1]) or 'harness check')); continue
                if callee.kind == 'global' and callee.v == 'verif_witness':
                    out.append('  __CPROVER_assert(!(%s), "WITNESS %s");' % (e.cval(args[0]), 'end state reachable')); continue
                if callee.kind == 'global': CALLED.add(callee.v)
                if seq and callee.kind == 'global' and callee.v.startswith('verif_') and callee.v not in ('verif_after_resume', 'verif_m_child_start'): visible()   # these two complete a parking point atomically
                call = '%s(%s)' % (cfname(callee.v) if callee.kind == 'global' else '(%s)' % e.cval(callee), ', '.join(e.cval(a) for a in args))
                if dst and not isinstance(rty, VoidT):
                    e.reg(dst, rty); out.append('  %s = %s;' % (e.reg(dst), call))
                else: out.append('  %s;' % call)
                if callee.kind == 'global' and callee.v in ('verif_make_runnable', 'verif_switch_to', 'verif_spawn'):
                    out.append('  VERIF_PROG = 1;')   # making another thread runnable is progress (else a bound exhausted mid-release looked like a deadlock)
                if not (callee.kind == 'global' and (callee.v in RUNTIME_PROVIDED or callee.v.startswith('verif_') or callee.v in M.decls)):
                    if seq: out.append('  if (VERIF_STOP_REQ) { VERIF_STOP_REQ = 0; TH[%d].done = 1; TH[%d].pc = -1; VERIF_PROG = 1; return; }' % (tid, tid))
                    else: out.append('  if (VERIF_STOP_REQ) %s' % ('return;' if isinstance(f.ret, VoidT) else 'return (%s)0;' % f.ret.c() if not isinstance(f.ret, (StructT, LitStructT, ArrT)) else 'return (%s){0};' % f.ret.c()))
            else:
                raise NotImplementedError(op + ' :: ' + s)
    return e

def ctype_decls():
    out = []
    done = set()
    def need(t):
        if isinstance(t, PtrT):
            if isinstance(t.to, FuncT): need_ft(t.to)
            elif isinstance(t.to, (StructT, LitStructT, ArrT)): fwd(t.to)
            elif isinstance(t.to, PtrT): need(t.to)
        elif isinstance(t, (StructT, LitStructT, ArrT)): define(t)
    def fwd(t):
        k = t.c()
        if ('fwd', k) in done: return
        done.add(('fwd', k)); out.append(k + ';')
    def need_ft(ft):
        k = ft.cptr()
        if k in done: return
        done.add(k)
        for a in ft.args + [ft.ret]: need(a) if not isinstance(a, (StructT, LitStructT, ArrT)) else define(a)
        out.append('typedef %s (*%s)(%s);' % (ft.ret.c(), k, ', '.join(a.c() for a in ft.args) + (', ...' if ft.va else '') if ft.args else ('void' if not ft.va else '')))
    def define(t):
        k = t.c()
        if k in done: return
        done.add(k)
        if isinstance(t, ArrT):
            need(t.el)
            out.append('%s { %s a[%d]; };' % (k, t.el.c(), max(t.n, 1)))
        else:
            if t.fields is None: out.append(k + ';'); return
            for f in t.fields: need(f)
            out.append('%s { %s }%s;' % (k, ' '.join('%s f%d;' % (f.c(), i) for i, f in enumerate(t.fields)) or 'char dummy;', ' __attribute__((packed))' if t.packed else ''))
    return out, need, define

TSO_LOCS = {}
SPECIAL = {}
CALLED = set()
REFERENCED = set()
USEDG = set()
NOOP = set()
TRAP = set()

# ---------------------------------------------------------------- constant initialisers
def cinit(v, ty, em):
    if v is None or v.kind in ('zero', 'undef'):
        return '{0}' if isinstance(ty, (StructT, ArrT, LitStructT)) else '0'
    if v.kind == 'cstr':
        raw = v.v; bs = []; i = 0
        while i < len(raw):
            if raw[i] == '\\':
                bs.append(int(raw[i + 1:i + 3], 16)); i += 3
            else:
                bs.append(ord(raw[i])); i += 1
        return '{ .a = {%s} }' % ', '.join(str(b) for b in bs)
    if v.kind == 'agg':
        if isinstance(ty, ArrT):
            return '{ .a = {%s} }' % ', '.join(cinit(o, ty.el, em) for o in v.ops)
        return '{ %s }' % ', '.join(cinit(o, ft, em) for o, ft in zip(v.ops, ty.fields))
    if v.kind == 'fp': return v.v if not v.v.startswith('0x') else '0.0'
    return em.cval(v)

def str_of_global_arg(a0):
    try:
        while a0.kind in ('cgep', 'ccast'): a0 = a0.ops[0]
        g0 = M.globals.get(a0.v)
        if g0 and g0['init'] is not None and g0['init'].kind == 'cstr':
            msg = re.sub(r'\\[0-9A-Fa-f]{2}', '', g0['init'].v)
            return re.sub(r'[^A-Za-z0-9_ <>=!&|()\[\].,:+*/-]', '?', msg)[:120]
    except Exception:
        pass
    return ''

RUNTIME_PROVIDED = {'verif_assert', 'verif_check', 'verif_all_done', 'verif_witness', 'verif_cur_tid', 'verif_done',
                    'verif_assume', 'verif_blocked', 'verif_stuck'}

def main():
    cfg = json.load(open(sys.argv[2]))
    parse_module(open(sys.argv[1]).read())
    opts = cfg.get('opts', {})
    SPECIAL.update(cfg.get('special', {}))
    NOOP.update(cfg.get('noop', ['empty_loop']))
    TRAP.update(cfg.get('trap', []))
    threads = cfg.get('threads', [])
    N = len(threads)
    for fn in threads + cfg.get('plain', []):
        if fn not in M.funcs: raise SystemExit('irseq: function %s not defined in module' % fn)
    ems = [translate_function(M.funcs[fn], tid, True, opts) for tid, fn in enumerate(threads)]
    plain_names = list(cfg.get('plain', []))
    plain = []
    done = set()
    havoc_ok = set(cfg.get('havoc_ok', [])) | {'fprintf', 'fwrite', 'fputc', 'fputs', 'printf', 'puts', 'perror', 'fflush', 'putchar'}
    env_model = cfg.get('env_model')
    provided = set(RUNTIME_PROVIDED) | set(cfg.get('runtime_provides', []))
    if env_model:
        provided.add('myth_get_current_env'); provided.add('myth_get_current_env_noinline')
        if env_model not in plain_names: plain_names.append(env_model)
    while True:
        todo = [n for n in plain_names if n not in done]
        if not todo:
            # calls to functions defined in the module but not inlined: translate them as atomic plain functions
            # address-taken functions in global initialisers (vtables) count as referenced
            def scan(v):
                if v is None: return
                if v.kind == 'global' and v.v in M.funcs: REFERENCED.add(v.v)
                if v.kind == 'global' and v.v in M.globals: USEDG.add(v.v)
                for o in (v.ops or []): scan(o)
            scanned = set()
            while True:
                todo_g = [n for n in sorted(USEDG) if n not in scanned]
                if not todo_g: break
                for n in todo_g:
                    scanned.add(n); g = M.globals.get(n)
                    if g is not None: scan(g['init'])
            extra = [c for c in sorted(CALLED | REFERENCED) if c in M.funcs and c not in done and c not in threads]
            if not extra: break
            plain_names += extra; continue
        for n in todo:
            plain.append(translate_function(M.funcs[n])); done.add(n)
    missing = [c for c in sorted(CALLED) if c not in M.funcs and c not in provided and c not in havoc_ok
               and not c.startswith('llvm.') and c not in SPECIAL and c not in ('memcpy', 'memset', 'memmove', 'malloc', 'free', 'calloc') and c not in CXX_ALLOC]
    if missing:
        raise SystemExit('irseq: calls to functions without body or model: ' + ', '.join(missing))
    decls, need, define = ctype_decls()
    for st in list(M.structs.values()): define(st)
    for t in list(M.lits.values()): define(t)
    for t in list(M.arrs.values()): define(t)
    for em in ems + plain:
        for ty in em.regs.values(): need(ty)
    for n, g in M.globals.items(): need(g['ty'])
    for ft in list(M.fts.values()):
        try: need(PtrT(ft))
        except Exception: pass
    P = print
    P('/* generated by irseq.py from LLVM IR of the real sources; do not edit */')
    P('#include <stdint.h>\n#include <string.h>\n#include <stdlib.h>')
    P('#ifndef VERIF_NATIVE\nlong nondet_long(void); long VERIF_NDV;\n#define VERIF_CHOICE() (VERIF_NDV = nondet_long())\n#define VERIF_TRACE(t, cs)\n#endif')
    if cfg.get('ptr_memmove'):
        # cbmc's library memmove copies through a char array; pointer values do not survive that (they come back as "unknown"),
        # which gave spurious counterexamples on the deque's re-centring memmove of thread pointers.  Pointer-word model:
        P('#ifndef VERIF_NATIVE\nvoid *memmove(void *d, const void *s, size_t n){ void **dd = (void **)d; void *const *ss = (void *const *)s; size_t k = n / sizeof(void *), i;\n'
          '  __CPROVER_assert(n % sizeof(void *) == 0, "VERIF model: memmove of whole pointer words");\n'
          '  if ((const char *)d < (const char *)s) { for (i = 0; i < k; i++) dd[i] = ss[i]; } else { for (i = k; i > 0; i--) dd[i - 1] = ss[i - 1]; }\n  return d; }\n#endif')
    P('\n'.join(decls))
    P('int PEND_V[8], PEND_L[8]; uint64_t PEND_X[8]; static void tso_commit(int t);')
    P('struct th { int pc; int done; int blocked; int spin; int held; }; int CUR_TID; int VERIF_STUCK; int VERIF_PROG; int VERIF_STOP_REQ; struct th TH[%d];' % max(1, N))
    # prototypes
    def proto(f, name=None):
        ps = ', '.join(p[0].c() for p in f.params)
        if f.va: ps = (ps + ', ...') if ps else ''
        if f.va and not f.params: return '%s %s()' % (f.ret.c(), cfname(name or f.name))
        return '%s %s(%s)' % (f.ret.c(), cfname(name or f.name), ps or 'void')
    for n, d in M.decls.items():
        if n.startswith('llvm.') or n in ('__assert_fail', 'verif_park', 'verif_stop', 'verif_yield') or n in SPECIAL or n.startswith('nondet_'): continue
        if n in ('memcpy', 'memset', 'memmove', 'malloc', 'free', 'calloc', 'abort', 'exit') or n in CXX_ALLOC: continue
        if n in TRAP: continue
        P(proto(d) + ';')
    for n, f in M.funcs.items():
        P(proto(f) + ';')
    P('#ifdef VERIF_NATIVE')
    for n, d in M.decls.items():
        if n in havoc_ok:
            ps = ', '.join('%s a%d' % (p[0].c(), i) for i, p in enumerate(d.params))
            if d.va: ps = (ps + ', ...') if ps else ''
            body = '{ }' if isinstance(d.ret, VoidT) else '{ return (%s)0; }' % d.ret.c()
            P('%s %s(%s) %s' % (d.ret.c(), cfname(n), ps or 'void', body))
    P('#endif')
    em0 = Emit(None)
    # globals: declarations first (they may reference each other), then definitions with initialisers
    for n, g in M.globals.items():
        ty = g['ty']
        if g['tls']: P('%s G_%s[%d];' % (ty.c(), mangle(n), max(1, N)))
        else: P('extern %s G_%s;' % (ty.c(), mangle(n)))
    for n, g in M.globals.items():
        ty = g['ty']
        if g['tls']: continue
        if g['init'] is None or g['init'].kind in ('zero', 'undef'): P('%s G_%s;' % (ty.c(), mangle(n)))
        else: P('%s G_%s = %s;' % (ty.c(), mangle(n), cinit(g['init'], ty, em0)))
    # generated runtime
    P('void F_verif_assert(uint32_t c){ __CPROVER_assert(c, "VERIF harness assertion"); }')
    P('void F_verif_assume(uint32_t c){ __CPROVER_assume(c); }')
    P('uint32_t F_verif_all_done(void){ return %s; }' % (' && '.join('TH[%d].done' % t for t in range(N)) or '1'))
    P('uint32_t F_verif_done(uint32_t t){ return TH[t].done; }')
    P('uint32_t F_verif_blocked(uint32_t t){ return TH[t].blocked; }')
    P('uint32_t F_verif_cur_tid(void){ return CUR_TID; }')
    P('uint32_t F_verif_stuck(void){ return VERIF_STUCK; }')
    if env_model:
        f = M.funcs[env_model]
        P('%s F_myth_get_current_env(void){ return %s((uint32_t)CUR_TID); }' % (f.ret.c(), cfname(env_model)))
        P('%s F_myth_get_current_env_noinline(void){ return %s((uint32_t)CUR_TID); }   /* src/myth_worker.c: one-line wrapper of myth_get_current_env */' % (f.ret.c(), cfname(env_model)))
    if cfg.get('runtime'): P(open(cfg['runtime']).read())
    for em in plain:
        f = em.f
        P(proto(f).replace('(%s)' % (', '.join(p[0].c() for p in f.params) or 'void'),
                           '(%s)' % (', '.join('%s %s' % (p[0].c(), em.reg(p[1])) for p in f.params) or 'void'), 1) + ' {')
        pk = [mangle(p[1]) for p in f.params]
        for k, ty in em.regs.items():
            if k in pk: continue
            P('  %s r_%s;' % (ty.c(), k))
        for ty, nm in em.allocas: P('  %s al_%s;' % (ty.c(), nm))
        P('\n'.join(em.out)); P('}')
    if opts.get('tso'):
        P('static void tso_commit(int t) { if (PEND_V[t]) { switch (PEND_L[t]) {')
        for addr, loc in TSO_LOCS.items(): P('    case %d: *%s = PEND_X[t]; break;' % (loc, addr))
        P('  } PEND_V[t] = 0; } }')
        P('static void tso_flush_some(void) { for (int t = 0; t < %d; t++) if (PEND_V[t] && VERIF_CHOICE()) tso_commit(t); }' % N)
        P('static void tso_flush_all(void) { for (int t = 0; t < %d; t++) tso_commit(t); }' % N)
    else:
        P('static void tso_commit(int t) { }')
    for em in ems:
        keepm = set(mangle(k) for k in (em.keep or []))
        nstat = 0
        for k, ty in em.regs.items():
            if em.keep is None or k in keepm: P('static %s %sr_%s;' % (ty.c(), em.pfx, k)); nstat += 1
        sys.stderr.write('irseq: thread %d: %d of %d registers live across a yield point (static)\n' % (em.tid, nstat, len(em.regs)))
        P('void run_t%d(int cs) {' % em.tid)
        for k, ty in em.regs.items():
            if not (em.keep is None or k in keepm): P('  %s %sr_%s;' % (ty.c(), em.pfx, k))
        P('  switch (TH[%d].pc) { case -2: break; %s default: return; }' % (em.tid, ' '.join('case %d: goto %s;' % (k, l) for k, l in em.resume)))
        P('\n'.join(em.out)); P('}')
    sys.stderr.write('irseq: %d threads, visible points per thread: %s\n' % (N, [em.nvis for em in ems]))
    if not threads and 'verif_main' in M.funcs:
        P('int main(void) { F_verif_main(); return 0; }')
    if threads:
        R = cfg.get('rounds', 3)
        order = cfg.get('order')  # optional explicit list of thread ids per round
        P('int main(void) {')
        for t in range(N): P('  TH[%d].pc = -2;' % t)
        if 'verif_init' in M.funcs: P('  F_verif_init();')
        cube = cfg.get('cube')   # {'parts': K, 'index': [p0, p1, ...]}: case split on the first-round preemption point of each thread
        for r in range(R):
            for t in (order[r] if order else range(N)):
                cons = ''
                if cube and r == 0 and t < len(cube['index']):
                    K = cube['parts']; p = cube['index'][t]; nv = max(1, ems[t].nvis)
                    if p >= K: cons = ' __CPROVER_assume(cs < 0 || cs >= %d);' % nv
                    else: cons = ' __CPROVER_assume(cs >= %d && cs < %d);' % (p * nv // K, (p + 1) * nv // K)
                P('  if (!TH[%d].done) { int cs = (int)VERIF_CHOICE();%s TH[%d].spin = 0; CUR_TID = %d; run_t%d(cs); VERIF_TRACE(%d, cs); }' % (t, cons, t, t, t, t))
                if opts.get('tso'): P('  tso_flush_some();')
        if opts.get('tso'): P('  tso_flush_all();')
        P('  { int pcb[%d];' % N)
        NQ = cfg.get('quiesce', 1)
        for q in range(NQ):
            if q == NQ - 1: P('  VERIF_PROG = 0;')
            for t in range(N):
                P('  pcb[%d] = TH[%d].pc; if (!TH[%d].done) { TH[%d].spin = 0; CUR_TID = %d; run_t%d(-1); VERIF_TRACE(%d, -1); }' % (t, t, t, t, t, t, t))
                if opts.get('tso'): P('  tso_flush_all();')
        P('  int unfinished = 0, stuck = !VERIF_PROG;')
        for t in range(N):
            P('  if (TH[%d].pc != pcb[%d]) stuck = 0; if (!TH[%d].done) { unfinished = 1; if (!(TH[%d].blocked || TH[%d].spin)) stuck = 0; }' % (t, t, t, t, t))
        if not cfg.get('allow_deadlock'):
            P('  __CPROVER_assert(!(unfinished && stuck), "VERIF deadlock / lost wake-up: every unfinished thread is blocked or spinning and nobody made progress"); }')
        else:
            P('  VERIF_STUCK = (unfinished && stuck); }')
        P('  CUR_TID = 0;')
        if 'verif_final' in M.funcs: P('  F_verif_final();')
        P('  return 0; }')

if __name__ == '__main__':
    main()
