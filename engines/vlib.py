#!/usr/bin/env python3
"""Common machinery of the /verif checks: job description, builders for the
three engines, CBMC result triage, parallel runner, evidence writer.

Every job rebuilds its query from /repo's *current working tree*."""
import json, os, re, resource, shutil, subprocess, sys, tempfile, time, hashlib
from concurrent.futures import ThreadPoolExecutor

VERIF = os.path.dirname(os.path.dirname(os.path.abspath(__file__)))
REPO = os.environ.get('VERIF_REPO', '/repo')
NCPU = int(os.environ.get('VERIF_JOBS', '0')) or (os.cpu_count() or 4)
CPPFLAGS = ['-I%s/model' % VERIF, '-I%s/harness' % VERIF, '-I%s/src' % REPO, '-I%s/include' % REPO,
            '-I%s/src/profiler' % REPO, '-DHAVE_CONFIG_H', '-D_GNU_SOURCE']
OPT_PIPE = ('function(sroa,early-cse,simplifycfg),cgscc(inline),'
            'function(sroa,early-cse,instcombine,simplifycfg,adce,lowerswitch),globaldce')
TLS_ENUM_RE = re.compile(r'myth_tls_tree_node_sz_leaf = \(size_t\)\(&\(\(myth_tls_tree_node_t \*\)0\)->entries\[myth_tls_tree_node_n_entries_in_leaf\]\)')
TLS_ENUM_SUB = ('myth_tls_tree_node_sz_leaf = __builtin_offsetof(myth_tls_tree_node_t, entries)'
                ' + sizeof(myth_tls_entry_t)*myth_tls_tree_node_n_entries_in_leaf')

_scratch = None
def scratch():
    global _scratch
    if _scratch is None:
        base = os.environ.get('VERIF_SCRATCH')
        if base:
            os.makedirs(base, exist_ok=True)
            _scratch = tempfile.mkdtemp(prefix='run.', dir=base)
        else:
            _scratch = tempfile.mkdtemp(prefix='verif.', dir='/var/tmp')
    return _scratch

def cleanup():
    global _scratch
    if _scratch and not os.environ.get('VERIF_KEEP'):
        shutil.rmtree(_scratch, ignore_errors=True)
    _scratch = None

class BuildError(Exception):
    pass

def run(cmd, cwd=None, timeout=None, stdin=None, mem_gb=None, env=None):
    """run a tool; returns (rc, stdout, stderr, wall_s, maxrss_kb). rc -9 on timeout."""
    def lim():
        os.setsid()
        if mem_gb:
            b = int(mem_gb * (1 << 30)); resource.setrlimit(resource.RLIMIT_AS, (b, b))
    t0 = time.time()
    p = subprocess.Popen(cmd, cwd=cwd, stdin=subprocess.PIPE if stdin is not None else subprocess.DEVNULL,
                         stdout=subprocess.PIPE, stderr=subprocess.PIPE, preexec_fn=lim, env=env)
    try:
        out, err = p.communicate(stdin, timeout=timeout)
        rc = p.returncode
    except subprocess.TimeoutExpired:
        try: os.killpg(p.pid, 9)
        except Exception: pass
        out, err = p.communicate(); rc = -9
    ru = resource.getrusage(resource.RUSAGE_CHILDREN)
    return rc, out.decode('utf-8', 'replace'), err.decode('utf-8', 'replace'), time.time() - t0, ru.ru_maxrss

def must(cmd, what, **kw):
    rc, out, err, w, _ = run(cmd, **kw)
    if rc != 0:
        raise BuildError('%s failed (rc=%d): %s\n%s' % (what, rc, ' '.join(cmd)[:400], (err or out)[-3000:]))
    return out

# ------------------------------------------------------------------ job
class Job:
    """One solver query (or a small group decided by one cbmc run).
    engine: 'A' cbmc-direct, 'B' irseq (sequentialised / plain IR translation), 'C' asmsmt (python callable)
    """
    def __init__(self, name, engine, src=None, defs=(), cbmc=(), wrap='MYTH_WRAP_VANILLA', timeout=1800,
                 mem_gb=12, replace_calls=(), cfg=None, delete=(), bounds=None, func=None, note='',
                 lang='c', extra_src=(), pyfunc=None, nowitness=False, sat=None, cxxflags=(), remove_bodies=(), group=None):
        self.name = name; self.engine = engine; self.src = src; self.defs = list(defs); self.cbmc = list(cbmc)
        self.wrap = wrap; self.timeout = timeout; self.mem_gb = mem_gb; self.replace_calls = list(replace_calls)
        self.cfg = cfg or {}; self.delete = list(delete); self.bounds = bounds or {}; self.func = func
        self.note = note; self.lang = lang; self.extra_src = list(extra_src); self.pyfunc = pyfunc
        self.group = group; self.nowitness = nowitness; self.sat = sat; self.cxxflags = list(cxxflags); self.remove_bodies = list(remove_bodies)

class JobResult:
    def __init__(self, job):
        self.job = job; self.status = 'undecided'; self.detail = ''
        self.violations = []      # list of dict(prop, desc, loc, trace_nd)
        self.ub_notes = []; self.witness = None; self.n_props = 0; self.n_ok = 0
        self.wall_s = 0.0; self.solver_s = 0.0; self.rss_kb = 0; self.vars = 0; self.clauses = 0
        self.functions = []; self.workdir = None; self.stubs = []; self.nd_sample = None
        self.unwind_fail = []; self.extra = {}

# ------------------------------------------------------------------ builders
def prep_goto(job, wd):
    """engine A: harness .c (includes real repo sources) -> goto binary"""
    src = os.path.join(VERIF, job.src)
    base = os.path.join(wd, 'h')
    must(['gcc', '-E', '-P'] + CPPFLAGS + ['-DMYTH_WRAP=' + job.wrap, '-DVERIF_CBMC=1'] + job.defs + [src, '-o', base + '.i'], 'preprocess')
    txt = open(base + '.i').read()
    for rx, rep in job.cfg.get('text_patches', []):
        txt, n = re.subn(rx, rep, txt)
        if n != 1: raise BuildError('front-end: text patch %r matched %d times (source changed shape)' % (rx, n))
        open(base + '.i', 'w').write(txt)
    if 'dr_dag_node * child;' in txt and not job.cfg.get('real_dr_types'):
        # mechanical type patch (DAG recorder): the anonymous union {child | {subgraphs, parent/active_section}} of struct
        # dr_dag_node becomes a struct (separate storage).  A node is a create_task node or a section/task, told apart by
        # info.kind, and the code never reads one view after writing the other; cbmc's widest-member byte-level
        # representation of the union made every list pointer non-constant (29M variables for a one-node shape).
        txt, n = re.subn(r'union \{(\s*dr_dag_node \* child;)', r'struct {\1', txt)
        if n != 1: raise BuildError('front-end: struct dr_dag_node changed shape; union patch not applicable')
        # same for dr_worker_specific_state: union { struct {...}; char minimum_size[64]; } is only padding
        txt, n = re.subn(r'(typedef struct dr_worker_specific_state \{\s*)union \{', r'\1struct {', txt)
        if n != 1: raise BuildError('front-end: dr_worker_specific_state changed shape; union patch not applicable')
        open(base + '.i', 'w').write(txt)
    if 'myth_tls_tree_node_sz_leaf' in txt:
        txt, n = TLS_ENUM_RE.subn(TLS_ENUM_SUB, txt)
        if n != 1:
            raise BuildError('front-end: myth_tls.h enumerator myth_tls_tree_node_sz_leaf changed shape; goto-cc patch not applicable')
        if job.cfg.get('real_tls_types'):
            open(base + '.i', 'w').write(txt)
            must(['goto-cc', base + '.i', '-o', base + '.gb'], 'goto-cc')
            return _post_gotocc(job, base)
        # second mechanical patch: the C89 'struct hack' array entries[1] gets its real extent, so that leaf
        # accesses are in-bounds typed accesses for cbmc (layout of both members' offsets is unchanged)
        txt, n2 = re.subn(r'myth_tls_entry_t entries\[1\];', 'myth_tls_entry_t entries[myth_tls_tree_node_n_entries_in_leaf];', txt)
        if n2 != 1:
            raise BuildError('front-end: myth_tls.h struct myth_tls_tree_node changed shape; struct-hack patch not applicable')
        # third mechanical patch: the anonymous union {children[], entries[]} becomes an anonymous struct (separate storage).
        # The code never puns between the two views (a node is internal or leaf, checked by its type tag); cbmc's
        # widest-member representation of the union made every children[] access a byte-level update of entries[].
        txt, n3 = re.subn(r'union \{(\s*struct myth_tls_tree_node \* children)', r'struct {\1', txt)
        if n3 != 1:
            raise BuildError('front-end: myth_tls.h struct myth_tls_tree_node changed shape; union patch not applicable')
        open(base + '.i', 'w').write(txt)
    must(['goto-cc', base + '.i', '-o', base + '.gb'], 'goto-cc')
    return _post_gotocc(job, base)

def _post_gotocc(job, base):
    cur = base + '.gb'
    if job.cfg.get('restrict_fp'):
        nxt = base + '.rf.gb'
        cmd = ['goto-instrument']
        for r in job.cfg['restrict_fp']: cmd += ['--restrict-function-pointer-by-name', r]
        must(cmd + [cur, nxt], 'goto-instrument --restrict-function-pointer-by-name'); cur = nxt
    if job.remove_bodies:
        nxt = base + '.rb.gb'
        cmd = ['goto-instrument']
        for f in job.remove_bodies: cmd += ['--remove-function-body', f]
        must(cmd + [cur, nxt], 'goto-instrument --remove-function-body'); cur = nxt
    if job.replace_calls:
        nxt = base + '.rc.gb'
        cmd = ['goto-instrument']
        for rcall in job.replace_calls: cmd += ['--replace-calls', rcall]
        must(cmd + [cur, nxt], 'goto-instrument --replace-calls'); cur = nxt
    return cur

def defined_functions(ll_text):
    return sorted(set(re.findall(r'^define [^@]*@"?([A-Za-z0-9_.$]+)"?\(', ll_text, re.M)))

def prep_irseq(job, wd):
    """engine B: harness -> clang IR -> delete/inline -> irseq.py -> C for cbmc"""
    src = os.path.join(VERIF, job.src)
    base = os.path.join(wd, 'h')
    cc = 'clang++-14' if job.lang == 'c++' else 'clang-14'
    flags = ['-O0', '-Xclang', '-disable-O0-optnone', '-S', '-emit-llvm', '-fno-discard-value-names']
    if job.lang == 'c++': flags += ['-std=c++11', '-fno-exceptions', '-fno-rtti', '-I%s/src' % REPO] + job.cxxflags
    if job.cfg.get('text_patches'):
        must([cc, '-E', '-P'] + (['-std=c++11'] if job.lang == 'c++' else []) + CPPFLAGS + ['-DMYTH_WRAP=' + job.wrap] + job.defs + [src, '-o', base + '.pp.c'], 'clang -E')
        txt = open(base + '.pp.c').read()
        for rx, rep in job.cfg['text_patches']:
            txt, n = re.subn(rx, rep, txt)
            if n != 1: raise BuildError('front-end: text patch %r matched %d times (source changed shape)' % (rx, n))
        open(base + '.pp.c', 'w').write(txt)
        must([cc] + flags + ['-Wno-everything', base + '.pp.c', '-o', base + '.0.ll'], 'clang')
    else:
        must([cc] + flags + CPPFLAGS + ['-DMYTH_WRAP=' + job.wrap] + job.defs + [src, '-o', base + '.0.ll'], 'clang')
    ll0 = open(base + '.0.ll').read()
    funcs = defined_functions(ll0)
    cur = base + '.0.ll'
    dels = [d for d in job.delete if d in funcs]
    if dels:
        cmd = ['llvm-extract-14', '-S', '--delete'] + ['--func=' + d for d in dels] + [cur, '-o', base + '.1.ll']
        must(cmd, 'llvm-extract'); cur = base + '.1.ll'
    txt = open(cur).read()
    # call-site wrapping: calls to F (outside verif_wrap_F itself) go to the harness function verif_wrap_F, which asserts and then calls the real F
    for fn in job.cfg.get('wrap', []):
        parts = re.split(r'(?m)^(define [^\n]*\n)', txt)
        outp = []; inside = None
        for p in parts:
            if p.startswith('define '):
                mm = re.search(r'@"?([A-Za-z0-9_.$]+)"?\(', p); inside = mm.group(1) if mm else None; outp.append(p)
            elif inside is not None and inside != 'verif_wrap_' + fn:
                outp.append(re.sub(r'(call [^\n]*?)@%s\(' % re.escape(fn), r'\1@verif_wrap_%s(' % fn, p))
            else: outp.append(p)
        txt = ''.join(outp)
        if '@verif_wrap_%s(' % fn not in txt: raise BuildError('wrap: no call site of %s found' % fn)
    txt = re.sub(r'\bnoinline\b', '', txt); txt = re.sub(r'\boptnone\b', '', txt)
    # harness-model bookkeeping functions stay out of line: in the translated query they are atomic steps (one pre-emption point before the call)
    txt = re.sub(r'(?m)^(define [^\n]*@(?:verif_make_runnable|verif_pop|verif_switch_to|verif_after_resume|verif_spawn|verif_take_env|verif_m_[A-Za-z0-9_]+)\([^\n]*?\))( #\d+)?( \{)$', r'\1 noinline\2\3', txt)
    open(base + '.2.ll', 'w').write(txt)
    pipe = job.cfg.get('opt_pipe', OPT_PIPE)
    must(['opt-14', '-S', '-passes=' + pipe, '-inline-threshold=1000000', base + '.2.ll', '-o', base + '.ll'], 'opt')
    cfg = dict(job.cfg); cfg.setdefault('opts', {})
    if cfg.get('runtime'): cfg['runtime'] = os.path.join(VERIF, cfg['runtime'])
    json.dump(cfg, open(base + '.json', 'w'))
    out = must([sys.executable, os.path.join(VERIF, 'engines', 'irseq.py'), base + '.ll', base + '.json'], 'irseq translator')
    open(base + '_seq.c', 'w').write(out)
    return base + '_seq.c', funcs, dels

# ------------------------------------------------------------------ cbmc triage
VIOL_CLASSES = ('assertion', 'pointer_dereference', 'array_bounds', 'precondition_instance', 'precondition',
                'division-by-zero', 'memory-leak', 'undefined-shift', 'overflow')
UB_CLASSES = ('pointer_relation', 'pointer_arithmetic', 'pointer_primitives', 'pointer', 'enum-range', 'conversion')
def prop_class(pid):
    parts = pid.split('.')
    if len(parts) >= 2 and parts[-1].isdigit(): return parts[-2]
    return parts[-1]

def parse_cbmc_json(text):
    try:
        data = json.loads(text)
    except Exception:
        # cbmc killed half-way: try to salvage
        return None
    res = None; msgs = []; status = None
    for it in data:
        if 'result' in it: res = it['result']
        if 'messageText' in it: msgs.append(it['messageText'])
        if 'cProverStatus' in it: status = it['cProverStatus']
    return res, msgs, status

def nd_from_trace(trace):
    """ordered list of the values the solver chose for the nondeterministic choices (VERIF_NDV assignments)"""
    vals = []
    for st in trace or []:
        if st.get('stepType') != 'assignment': continue
        if st.get('lhs', '') == 'VERIF_NDV' and st.get('sourceLocation', {}).get('function', '') not in ('', '__CPROVER_initialize', '__CPROVER__start'):
            v = st.get('value', {})
            d = str(v.get('data', '0'))
            d = re.sub(r'[a-zA-Z]+$', '', d) or '0'
            vals.append(d)
    return vals

def run_cbmc(job, target, wd, res, extra=(), extra_props=None):
    if os.environ.get('VERIF_BUILD_ONLY'):
        res.status = 'built'; return
    flags = ['--json-ui', '--trace', '--no-malloc-may-fail', '--drop-unused-functions', '--unwinding-assertions']
    if job.func: flags += ['--function', job.func]
    cmd = ['cbmc', target] + flags + job.cbmc + list(extra)
    env = None
    if job.sat == 'cvc5-int':
        cmd += ['--cvc5', '--slice-formula']
        env = dict(os.environ, PATH=os.path.join(VERIF, 'tools', 'shim') + ':' + os.environ.get('PATH', ''))
    elif job.sat: cmd += job.sat
    rc, out, err, wall, rss = run(cmd, cwd=wd, timeout=job.timeout, mem_gb=job.mem_gb, env=env)
    res.wall_s += wall; res.rss_kb = max(res.rss_kb, rss)
    open(os.path.join(wd, 'cbmc.json'), 'w').write(out)
    open(os.path.join(wd, 'cbmc.cmd'), 'w').write(' '.join(cmd) + '\n')
    if rc == -9:
        res.status = 'undecided'
        res.detail = ('solver timeout after %ds' % job.timeout) if wall >= job.timeout - 5 else 'solver killed by SIGKILL after %ds (kernel out-of-memory killer or external kill)' % wall
        return
    parsed = parse_cbmc_json(out)
    if parsed is None or parsed[0] is None:
        msgs = parsed[1] if parsed else []
        tail = ' | '.join(msgs[-6:]) if msgs else (err or out)[-1500:]
        if rc in (-6, -11, 137) or 'bad_alloc' in tail or 'Out of memory' in tail or 'std::bad_alloc' in err:
            res.status = 'undecided'; res.detail = 'solver out of memory (limit %s GB): %s' % (job.mem_gb, tail[-300:])
        else:
            res.status = 'error'; res.detail = 'cbmc front-end/engine error rc=%d: %s' % (rc, tail[-1500:])
        return
    results, msgs, _ = parsed
    for m in msgs:
        mm = re.search(r'(\d+) variables, (\d+) clauses', m)
        if mm: res.vars = max(res.vars, int(mm.group(1))); res.clauses = max(res.clauses, int(mm.group(2)))
        mm = re.search(r'Runtime (?:decision procedure|Solver): ([0-9.]+)s', m)
        if mm: res.solver_s += float(mm.group(1))
    unk_all = [r.get('property') for r in results if r.get('status') not in ('SUCCESS', 'FAILURE')]
    unk = [p for p in unk_all if '.unwind.' not in p and '.recursion' not in p]      # unwinding assertions cannot be selected with --property
    for p in unk_all:
        if p not in unk: res.unwind_fail.append('%s left UNKNOWN by cbmc' % p)
    results = [r for r in results if r.get('property') in unk or r.get('status') in ('SUCCESS', 'FAILURE')]
    if unk and not extra_props:
        # cbmc leaves properties UNKNOWN in multi-property mode once other properties have failed: decide them on their own
        sub = JobResult(job)
        run_cbmc(job, target, wd, sub, extra=list(extra) + sum([['--property', p] for p in unk], []), extra_props=unk)
        res.wall_s += sub.wall_s; res.solver_s += sub.solver_s
        if sub.status in ('undecided', 'error') and not sub.violations:
            res.status = sub.status; res.detail = 'properties left UNKNOWN by cbmc could not be decided separately: ' + sub.detail; return
        bypid = {r.get('property'): r for r in sub.extra.get('_raw', [])}
        results = [bypid.get(r.get('property'), r) if r.get('property') in unk else r for r in results]
        still = [r.get('property') for r in results if r.get('status') not in ('SUCCESS', 'FAILURE')]
        if still:
            res.status = 'undecided'; res.detail = 'cbmc status UNKNOWN for ' + ', '.join(still[:5]); return
    if extra_props:
        res.extra['_raw'] = results
    res.n_props = len(results)
    nobody = set()
    for m in msgs:
        mm = re.search(r'no body for (?:function|callee) (\S+)', m)
        if mm: nobody.add(mm.group(1).strip("'"))
    nobody = {f for f in nobody if not re.match(r'(F_)?(nondet_\w+|fprintf|fwrite|fputc|fputs|printf|puts|perror|fflush|putchar)$', f) and f not in job.cfg.get('havoc_ok', []) and f[2:] not in job.cfg.get('havoc_ok', [])}
    if nobody:
        res.status = 'error'; res.detail = 'functions without body in the query (would be havocked silently): ' + ', '.join(sorted(nobody)); return
    witness_seen = False
    for r in results:
        pid = r.get('property', ''); desc = r.get('description', ''); st = r.get('status')
        loc = r.get('sourceLocation', {})
        where = '%s:%s %s' % (os.path.basename(loc.get('file', '?')), loc.get('line', '?'), loc.get('function', ''))
        if desc.startswith('WITNESS'):
            witness_seen = True
            if st == 'FAILURE':
                res.witness = desc; res.nd_sample = nd_from_trace(r.get('trace'))
            continue
        if st == 'SUCCESS':
            res.n_ok += 1; continue
        cls = prop_class(pid)
        if cls in ('unwind', 'recursion') or 'unwinding assertion' in desc or 'recursion unwinding' in desc:
            res.unwind_fail.append('%s %s @%s' % (pid, desc, where)); continue
        ent = dict(prop=pid, desc=desc, loc=where, nd=nd_from_trace(r.get('trace')), trace=r.get('trace'))
        if desc.startswith('UBNOTE') or (cls in UB_CLASSES and not desc.startswith('VERIF')):
            res.ub_notes.append('%s: %s @%s' % (pid, desc, where)); continue
        res.violations.append(ent)
    if res.violations:
        res.status = 'violated'
    elif res.unwind_fail:
        res.status = 'undecided'; res.detail = 'unwinding bound too small: ' + '; '.join(res.unwind_fail[:3])
    elif not job.nowitness and not extra_props and not (witness_seen and res.witness):
        if job.group and witness_seen:
            res.status = 'holds'; res.extra['witness_reachable_in_this_cube'] = False    # decided at group level (vlib.decide)
        else:
            res.status = 'vacuous'; res.detail = 'WITNESS assertion %s' % ('unreachable (harness over-constrained)' if witness_seen else 'missing from the query')
    else:
        res.status = 'holds'

def run_job(job):
    res = JobResult(job)
    if os.environ.get('VERIF_MAX_TIMEOUT'): job.timeout = min(job.timeout, int(os.environ['VERIF_MAX_TIMEOUT']))
    wd = os.path.join(scratch(), re.sub(r'[^A-Za-z0-9_.-]', '_', job.name))
    os.makedirs(wd, exist_ok=True); res.workdir = wd
    t0 = time.time()
    try:
        if job.engine == 'A':
            tgt = prep_goto(job, wd)
            run_cbmc(job, tgt, wd, res)
        elif job.engine == 'B':
            tgt, funcs, dels = prep_irseq(job, wd)
            res.functions = funcs; res.stubs = dels
            run_cbmc(job, tgt, wd, res, extra=['--no-signed-overflow-check', '--no-undefined-shift-check'])
        elif job.engine == 'C':
            job.pyfunc(job, wd, res)
        else:
            raise BuildError('unknown engine ' + job.engine)
    except BuildError as e:
        res.status = 'error'; res.detail = str(e)
    except Exception as e:  # noqa
        import traceback
        res.status = 'error'; res.detail = 'internal: ' + traceback.format_exc()[-2000:]
    res.wall_s = time.time() - t0
    return res

def run_jobs(jobs, par=None):
    # heavier jobs first
    order = sorted(range(len(jobs)), key=lambda i: -jobs[i].timeout)
    out = [None] * len(jobs)
    with ThreadPoolExecutor(max_workers=par or NCPU) as ex:
        futs = {ex.submit(run_job, jobs[i]): i for i in order}
        for f in futs:
            pass
        for f, i in futs.items():
            out[i] = f.result()
    return out

# ------------------------------------------------------------------ known findings
def load_known():
    kf = []
    p = os.path.join(VERIF, 'known_findings.txt')
    if os.path.exists(p):
        for ln in open(p):
            ln = ln.strip()
            if not ln or ln.startswith('#'): continue
            m = re.match(r'known: property=(\S+) job=(\S+) match=/(.*)/ :: (.*)$', ln)
            if m: kf.append(dict(prop=m.group(1), job=m.group(2), rx=re.compile(m.group(3)), what=m.group(4)))
    return kf

# ------------------------------------------------------------------ replay artefacts
def save_replay(pid, res, v):
    d = os.path.join(VERIF, 'evidence', 'replays', pid) if not os.environ.get('VERIF_NOEVIDENCE') else os.path.join('/var/tmp/logs/replays', pid)
    os.makedirs(d, exist_ok=True)
    tag = re.sub(r'[^A-Za-z0-9_.-]', '_', res.job.name)
    path = os.path.join(d, tag + '.json')
    steps = []
    for st in (v.get('trace') or []):
        if st.get('stepType') == 'assignment' and not st.get('hidden'):
            lhs = st.get('lhs', '')
            if lhs.startswith('VERIF_ND') or lhs.startswith('SCHED') or re.match(r'(cs|TH\[\d+l?\]\.pc)$', lhs):
                val = st.get('value', {}); steps.append([lhs, val.get('data', val.get('name'))])
        elif st.get('stepType') == 'failure':
            steps.append(['FAILURE', st.get('reason', '')])
    json.dump(dict(property=pid, job=res.job.name, engine=res.job.engine, source=res.job.src, defs=res.job.defs,
                   cbmc_flags=res.job.cbmc, failed_assertion=v['prop'], description=v['desc'], location=v['loc'],
                   nondet_choices=v.get('nd'), decoded_steps=steps[:400], native_replay=v.get('native')), open(path, 'w'), indent=1)
    return path

def redirect_calls(txt, mapping):
    """text-level equivalent of goto-instrument --replace-calls on preprocessed C: identifiers in `mapping` are renamed to
    <name>__orig at brace depth 0 (declarations, definition) and to the stub's name inside function bodies (calls); a prototype
    of the stub (taken from its definition in the harness) is inserted before the first top-level item that calls it"""
    protos = {}
    for f, st in mapping.items():
        m = re.search(r'(?m)^([A-Za-z_][\w \t\*]*?)\b%s\s*\(([^{;]*?)\)\s*\{' % re.escape(st), txt)
        if m: protos[st] = '%s %s(%s);\n' % (m.group(1).strip(), st, m.group(2))
    out = []; i = 0; n = len(txt); depth = 0; item_start = 0; done = set()
    ident = re.compile(r'[A-Za-z_][A-Za-z0-9_]*')
    while i < n:
        c = txt[i]
        if c == '"' or c == "'":
            j = i + 1
            while j < n and txt[j] != c:
                j += 2 if txt[j] == '\\' else 1
            out.append(txt[i:j + 1]); i = j + 1; continue
        if c == '{': depth += 1
        elif c == '}':
            depth -= 1
            if depth == 0: out.append(c); i += 1; item_start = len(out); continue
        elif c == ';' and depth == 0:
            out.append(c); i += 1; item_start = len(out); continue
        m = ident.match(txt, i) if (c.isalpha() or c == '_') else None
        if m:
            w = m.group(0)
            if w in mapping:
                if depth == 0: w = w + '__orig'
                else:
                    w = mapping[w]
                    if w in protos and w not in done:
                        out.insert(item_start, '\n' + protos[w]); done.add(w)
            out.append(w); i = m.end(); continue
        out.append(c); i += 1
    return ''.join(out)

def native_replay(res, v):
    """re-execute the counterexample natively: compile the same query source with gcc, nondeterministic
    choices baked from the solver's assignment; the same assertion must fire."""
    job = res.job; wd = res.workdir
    nd = v.get('nd') or []
    vals = os.path.join(wd, 'nd_%s.txt' % re.sub(r'\W', '_', v['prop']))
    with open(vals, 'w') as f:
        for val in nd:
            f.write('%s\n' % val)
    if job.engine == 'B':
        src = os.path.join(wd, 'h_seq.c')
        exe = os.path.join(wd, 'replay_' + re.sub(r'\W', '_', v['prop']))
        rc, out, err, _, _ = run(['gcc', '-O0', '-w', '-DVERIF_NATIVE=1', '-include', os.path.join(VERIF, 'model', 'native_shim.h'), src, '-o', exe], timeout=120)
        if rc != 0: return dict(ok=None, why='native compile failed: ' + err[-400:])
        rc, out, err, _, _ = run([exe], timeout=60, env=dict(os.environ, VERIF_ND_FILE=vals))
        fired = 'VERIF-ASSERT-FIRED' in out or 'VERIF-ASSERT-FIRED' in err
        return dict(ok=fired, rc=rc, output=(out + err)[-600:], values=vals)
    if job.engine == 'A':
        src = os.path.join(VERIF, job.src)
        exe = os.path.join(wd, 'replay_' + re.sub(r'\W', '_', v['prop']))
        pre = ['-O1', '-fno-strict-aliasing', '-w', '-DVERIF_NATIVE=1', '-include', os.path.join(VERIF, 'model', 'native_shim.h')] + CPPFLAGS + ['-DMYTH_WRAP=' + job.wrap] + job.defs
        if job.replace_calls or job.remove_bodies:
            # the query replaced calls f -> stub (goto-instrument); do the same on the preprocessed text for the native build:
            # occurrences of f at brace depth 0 are its declarations/definition (renamed away), occurrences inside bodies are calls
            ni = os.path.join(wd, 'native.i')
            rc, out, err, _, _ = run(['gcc', '-E', '-P'] + pre + [src, '-o', ni], timeout=120)
            if rc != 0: return dict(ok=None, why='native preprocess failed: ' + err[-400:])
            if job.remove_bodies: return dict(ok=None, why='no native replay: query removed function bodies (havoc)')
            txt = redirect_calls(open(ni).read(), dict(rc_.split(':') for rc_ in job.replace_calls))
            nc = os.path.join(wd, 'native_rc.c'); open(nc, 'w').write(txt)
            cmd = ['gcc', '-O1', '-fno-strict-aliasing', '-w', nc, '-o', exe, '-lpthread', '-ldl']
        else:
            cmd = ['gcc'] + pre + [src, '-o', exe, '-lpthread', '-ldl']
        rc, out, err, _, _ = run(cmd, timeout=120)
        if rc != 0: return dict(ok=None, why='native compile failed: ' + err[-400:])
        rc, out, err, _, _ = run([exe], timeout=60, env=dict(os.environ, VERIF_ND_FILE=vals))
        fired = 'VERIF-ASSERT-FIRED' in out or 'VERIF-ASSERT-FIRED' in err or rc in (-11, -6, 134, 139)
        return dict(ok=fired, rc=rc, output=(out + err)[-600:], values=vals)
    return dict(ok=None, why='no native replay for this engine')

# ------------------------------------------------------------------ property-level driver
def decide(pid, tier, jobs, level='model_checking', assumptions=(), functions_doc=(), explanation='', seed=0):
    t0 = time.time()
    results = run_jobs(jobs)
    known = [k for k in load_known() if k['prop'] == pid]
    viol_lines = []; known_lines = []; broken = []; undec = []
    samples = []; decided = 0; evals = 0; solver_s = 0.0
    for r in results:
        evals += 1; solver_s += r.solver_s
        s = dict(job=r.job.name, engine=r.job.engine, harness=r.job.src, defs=r.job.defs, bounds=r.job.bounds,
                 status=r.status, detail=r.detail[:500], properties_checked=r.n_props, properties_ok=r.n_ok,
                 wall_s=round(r.wall_s, 1), solver_s=round(r.solver_s, 1), peak_rss_kb=r.rss_kb, vars=r.vars, clauses=r.clauses,
                 cbmc_flags=r.job.cbmc, note=r.job.note)
        if r.functions: s['functions_in_query'] = r.functions
        if r.stubs: s['real_functions_replaced_by_model'] = r.stubs
        if r.job.replace_calls: s['calls_replaced'] = r.job.replace_calls
        if r.nd_sample is not None: s['witness_choices'] = r.nd_sample[:64]
        if r.witness: s['witness'] = r.witness
        if r.ub_notes: s['ub_notes'] = r.ub_notes[:10]
        if r.extra: s.update(r.extra)
        if r.status == 'holds':
            decided += 1
        elif r.status == 'violated':
            unlisted = []
            for v in r.violations:
                sig = '%s %s @%s' % (v['prop'], v['desc'], v['loc'])
                k = next((k for k in known if (k['job'] == r.job.name or k['job'] == '*') and k['rx'].search(sig)), None)
                if k:
                    known_lines.append('KNOWN-FINDING: property=%s %s [job %s: %s]' % (pid, k['what'], r.job.name, sig))
                else:
                    unlisted.append(v)
            if unlisted:
                # replay each distinct violation natively before reporting
                conf = []
                for v in unlisted[:8]:
                    if r.job.engine in ('A', 'B') and not r.job.cfg.get('no_native'):
                        v['native'] = native_replay(r, v)
                    conf.append(v)
                disagree = [v for v in conf if v.get('native') and v['native'].get('ok') is False]
                real = [v for v in conf if v not in disagree]
                for v in real[:4]:
                    path = save_replay(pid, r, v)
                    viol_lines.append('VIOLATION property=%s replay=%s' % (pid, path))
                    print('  violated: [%s] %s %s @%s' % (r.job.name, v['prop'], v['desc'], v['loc']))
                if disagree and not real:
                    broken.append('%s: ENGINE-DISAGREEMENT solver counterexample for %s does not reproduce natively: %s' % (r.job.name, disagree[0]['prop'], disagree[0]['native'].get('output', '')[-200:]))
                s['violations'] = ['%s %s @%s' % (v['prop'], v['desc'], v['loc']) for v in unlisted[:10]]
            else:
                decided += 1
                s['status'] = 'holds-except-known-findings'
        elif r.status == 'undecided':
            undec.append('%s: %s' % (r.job.name, r.detail))
        else:
            broken.append('%s: %s: %s' % (r.job.name, r.status, r.detail))
        samples.append(s)
    groups = {}
    for r in results:
        if r.job.group: groups.setdefault(r.job.group, []).append(r)
    for g, rs in groups.items():
        if all(r.status in ('holds',) for r in rs) and not any(r.witness for r in rs):
            broken.append('%s: vacuous: WITNESS unreachable in every cube of the case split (harness over-constrained or bound too small)' % g)
    for l in sorted(set(known_lines)): print(l)
    wall = time.time() - t0
    ev = dict(property_id=pid, tier=tier, seed=seed, level=level,
              coverage=dict(evaluations=evals, distinct_nontrivial=decided,
                            rule='one evaluation = one solver query (a harness configuration over the real code with symbolic inputs/schedule); it counts as distinct+non-trivial only if the solver decided it AND its WITNESS twin assertion was reachable (non-vacuous)',
                            samples=samples, undecided=undec, broken=broken, solver_s=round(solver_s, 1),
                            explanation=explanation, known_findings_matched=sorted(set(known_lines))),
              assumptions=list(assumptions), wall_s=round(wall, 1), violations=len(viol_lines))
    if functions_doc: ev['coverage']['functions_encoded'] = list(functions_doc)
    if not os.environ.get('VERIF_NOEVIDENCE'):
        os.makedirs(os.path.join(VERIF, 'evidence'), exist_ok=True)
        json.dump(ev, open(os.path.join(VERIF, 'evidence', pid + '.json'), 'w'), indent=1)
    for r in results:
        print('  [%s] %-34s %-10s %6.1fs rss=%dMB props=%d %s' % (pid, r.job.name, r.status, r.wall_s, r.rss_kb // 1024, r.n_props, r.detail[:300].replace('\n', ' ')))
    for l in viol_lines: print(l)
    for b in broken: print('CHECK-BROKEN: ' + b[:1500])
    for u in undec: print('UNDECIDED: ' + u[:300])
    if viol_lines: return 1
    if broken: return 2
    if undec: return 3
    return 0
