/* common prologue of the engine-B sync-primitive harnesses: real public wrappers
 * (myth_if_native.c) + real *_func.h bodies on top of the worker model */
#include "verif_model.h"
#include "myth_if_native.c"
#include "verif_model_impl.h"
int verif_blocked(int t); int verif_stuck(void);
/* globals normally defined in other library TUs */
volatile int g_myth_init_state = myth_init_state_initialized;
myth_globalattr_t g_attr;
myth_steal_func_t g_myth_steal_func;
__thread unsigned int g_myth_random_temp;
int g_sched_prof;
myth_tls_key_allocator_t g_myth_tls_key_allocator[1];
