/* C15 (engine A): MYTH_CPU_LIST parser on every byte string of length <= L (plus NULL), output capacity N.
 * Real code: the whole recursive-descent parser of src/myth_bind_worker.c (included as a .c). */
#include <ctype.h>
#include <stdio.h>
#include <stdlib.h>
#define _GNU_SOURCE 1
#include <sched.h>
#include <pthread.h>
#include "verif_a.h"
#ifndef L
#define L 5
#endif
#ifndef NOUT
#define NOUT 3
#endif
static char envbuf[L + 1];
static int env_null;
/* C-locale classification table standing for glibc's __ctype_b_loc() (isdigit is a table lookup there) */
static unsigned short ctab[384];
static const unsigned short *ctabp;
const unsigned short **__ctype_b_loc(void){ return &ctabp; }
char *getenv(const char *name){ (void)name; return env_null ? (char*)0 : &envbuf[0]; }
long sysconf(int name){ (void)name; long v = VERIF_CHOICE(); ASSUME(v >= 1 && v <= 1024); return v; }
int fputc(int c, FILE *f){ (void)f; return c; }
#ifdef VERIF_NATIVE
pthread_t real_pthread_self(void){ return 0; }
int real_pthread_setaffinity_np(pthread_t t, size_t n, const cpu_set_t *c){ (void)t; (void)n; (void)c; return 0; }
#endif
#include "myth_bind_worker.c"
int main(void){
  int i;
  for (i = 0; i < 10; i++) ctab[128 + '0' + i] = _ISdigit;
  ctabp = ctab + 128;
  env_null = VERIF_CHOICE() & 1;
  for (i = 0; i < L; i++) envbuf[i] = (char)VERIF_CHOICE();
  envbuf[L] = 0;
  struct { int g0; int a[NOUT]; int g1; } fr;
  fr.g0 = 0x5a5a5a5a; fr.g1 = 0x5a5a5a5a;
  for (i = 0; i < NOUT; i++) fr.a[i] = -7;
  int r = myth_parse_cpu_list("MYTH_CPU_LIST", fr.a, NOUT);
  CHECK(r == -1 || (r >= 0 && r <= NOUT), "C15 the CPU-list parser returns -1 (malformed) or a count within the output capacity");
  CHECK(fr.g0 == 0x5a5a5a5a && fr.g1 == 0x5a5a5a5a, "C15 the CPU-list parser writes only inside the output array");
  if (env_null) CHECK(r == 0, "C15 an unset MYTH_CPU_LIST yields an empty list");
  if (r >= 0) { for (i = 0; i < NOUT; i++) if (i < r) CHECK(fr.a[i] >= 0, "C15 listed CPU numbers are non-negative"); }
  WITNESS_IF(r == 2);
  return 0;
}
