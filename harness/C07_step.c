/* C07 (engine A): one decrement / one wait from an ARBITRARY reachable packed state, every N in [1,2^31), every waiter count
 * that fits the word.  The queue operations are replaced by recording stubs (their protocol is checked in the engine-B jobs). */
#include "myth_sync_func.h"
#include "verif_a.h"
volatile int g_myth_init_state; myth_globalattr_t g_attr; myth_steal_func_t g_myth_steal_func; __thread unsigned int g_myth_random_temp; int g_sched_prof;
myth_tls_key_allocator_t g_myth_tls_key_allocator[1]; myth_running_env_t g_envs; int g_envs_sz; __thread int g_worker_rank;
static int n_wake_calls; static long woken; static int n_block;
static myth_join_counter_t jc[1];
int stub_wake_many(myth_sleep_queue_t *q, callback_on_wakeup_t cb, void *arg, long n){ (void)cb; (void)arg; CHECK(q == jc->sleep_q, "C07 waiters are woken from the counter's own queue"); n_wake_calls++; woken = n; return (int)n; }
void stub_block(myth_sleep_queue_t *q, myth_mutex_t *m){ (void)q; (void)m; n_block++;
  /* while the waiter sleeps the remaining decrements happen */
  jc->state = (jc->state & ~jc->state_mask) | jc->n_threads; }
int main(void){
  long n = VERIF_CHOICE(); ASSUME(1 <= n && n < (1L << 31));
  myth_join_counter_init_body(jc, 0, n);
  int b = jc->n_threads_bits;
  long decs = VERIF_CHOICE(), w = VERIF_CHOICE();
  ASSUME(0 <= decs && decs <= n && 0 <= w && w < (1L << 30));
  jc->state = (w << b) | decs;
  if (VERIF_CHOICE() & 1) {          /* one decrement */
    ASSUME(decs < n);
    myth_join_counter_dec_body(jc);
    CHECK((jc->state & jc->state_mask) == decs + 1 && (jc->state >> b) == w, "C07 a decrement adds one to the decrement field and leaves the waiter field alone");
    if (decs + 1 == n) CHECK(n_wake_calls == 1 && woken == w, "C07 the N-th decrement releases every waiting thread, however many there are");
    else CHECK(n_wake_calls == 0, "C07 no waiter is released before the N-th decrement");
    WITNESS_IF(decs + 1 == n && w > 5);
  } else {                           /* one wait */
    int r = myth_join_counter_wait_body(jc);
    CHECK(r == 0, "C07 wait returns 0");
    if (decs == n) CHECK(n_block == 0, "C07 a wait issued after the N-th decrement returns immediately");
    else CHECK(n_block == 1, "C07 a wait issued before the N-th decrement blocks (once) until it has happened");
    CHECK((jc->state & jc->state_mask) == n, "C07 wait returns only when N decrements have been performed");
    WITNESS_IF(n_block == 1);
  }
  return 0;
}
