/* C07: join counter.  NDEC decrementers (threads 0..NDEC-1), the remaining threads wait.
 * MODE 1: the waiter additionally waits a second time afterwards (late wait returns immediately) */
#ifndef VN
#define VN 2
#endif
#ifndef NDEC
#define NDEC 1
#endif
#ifndef MODE
#define MODE 0
#endif
#include "sync_common.h"
myth_join_counter_t JC;
volatile int decs_begun; volatile int decs_done; int released[4];
void verif_init(void){ verif_model_init(); myth_join_counter_init_body(&JC, 0, NDEC); }
static inline void dec(int me){ (void)me; __sync_fetch_and_add(&decs_begun, 1); myth_join_counter_dec_body(&JC); __sync_fetch_and_add(&decs_done, 1); }
static inline void waiter(int me){
  myth_join_counter_wait_body(&JC);
  verif_check(decs_begun == NDEC, "C07 wait returns only after N decrements have been performed");
  released[me]++;
#if MODE == 1
  myth_join_counter_wait_body(&JC);
  verif_check(!verif_blocked(me), "C07 a wait issued after the N-th decrement returns immediately");
  released[me]++;
#endif
}
#if VN == 2
void t0(void){ dec(0); }
void t1(void){ waiter(1); }
#elif VN == 4      /* two decrementers, two waiters */
void t0(void){ dec(0); }
void t1(void){ dec(1); }
void t2(void){ waiter(2); }
void t3(void){ waiter(3); }
#elif NDEC == 2
void t0(void){ dec(0); }
void t1(void){ dec(1); }
void t2(void){ waiter(2); }
#else
void t0(void){ dec(0); }
void t1(void){ waiter(1); }
void t2(void){ waiter(2); }
#endif
void verif_final(void){
  if (verif_all_done()) verif_check(JC.sleep_q->head == 0, "C07 no waiter left sleeping");
  verif_witness(verif_all_done());
}
