/* C16 (engine A): every supported pthread entry point of src/myth_wrap_pthread.c (link-time flavour, __wrap_pthread_*)
 * against its POSIX return/forwarding contract.  The myth_*_body functions are replaced (--replace-calls) by recording
 * stubs that return any value THEIR contract allows; real_* are different recording stubs. */
#include <pthread.h>
#include <errno.h>
#include <string.h>
#include <stdlib.h>
#include "verif_a.h"
static int wrap_mode;        /* 0: MYTH_WRAP_PTHREAD=0, 1: unset, 2: MYTH_WRAP_PTHREAD=1 */
static char s0[2] = "0", s1[2] = "1";
char *getenv(const char *n){ if (!strcmp(n, "MYTH_WRAP_PTHREAD")) return wrap_mode == 0 ? &s0[0] : wrap_mode == 1 ? (char*)0 : &s1[0]; return 0; }
int atoi(const char *s){ return s[0] == '0' ? 0 : 1; }
/* pthread attribute getters used by the attribute translation: arbitrary contents chosen by the harness */
static int pa_detach; static void *pa_stackaddr; static size_t pa_stacksize; static int pma_type;
int pthread_attr_getdetachstate(const pthread_attr_t *a, int *d){ (void)a; *d = pa_detach; return 0; }
int pthread_attr_getstack(const pthread_attr_t *a, void **sa, size_t *ss){ (void)a; *sa = pa_stackaddr; *ss = pa_stacksize; return 0; }
int pthread_mutexattr_gettype(const pthread_mutexattr_t *a, int *t){ (void)a; *t = pma_type; return 0; }
#include "myth_wrap_pthread.c"
int myth_get_n_available_cpus(void){ return 4; }
volatile int g_myth_init_state = myth_init_state_initialized; myth_globalattr_t g_attr;
myth_steal_func_t g_myth_steal_func; __thread unsigned int g_myth_random_temp; int g_sched_prof;
myth_tls_key_allocator_t g_myth_tls_key_allocator[1];
static struct myth_running_env EV; myth_running_env_t g_envs = &EV; int g_envs_sz = 1; __thread int g_worker_rank;

static int n_body, n_real; static void *a1, *a2, *a3, *a4; static long body_ret, real_ret; static int b_kind;
static myth_thread_attr_t seen_attr; static int seen_attr_null;
#define BODY(k) (n_body++, b_kind = (k))
/* ---- body stubs: return anything the body's own contract allows ---- */
int sb_mutex_lock(myth_mutex_t *m){ BODY(1); a1 = m; return 0; }
int sb_mutex_trylock(myth_mutex_t *m){ BODY(2); a1 = m; body_ret = (VERIF_CHOICE() & 1) ? 0 : EBUSY; return (int)body_ret; }
int sb_mutex_unlock(myth_mutex_t *m){ BODY(3); a1 = m; body_ret = VERIF_CHOICE(); ASSUME(body_ret >= 0 && body_ret <= 1000); return (int)body_ret; } /* number of failed CAS attempts */
int sb_spin_lock(myth_spinlock_t *l){ BODY(4); a1 = l; body_ret = VERIF_CHOICE(); ASSUME(body_ret >= 0 && body_ret <= 1000); return (int)body_ret; }     /* number of failed attempts */
int sb_spin_trylock(myth_spinlock_t *l){ BODY(5); a1 = l; body_ret = VERIF_CHOICE() & 1; return (int)body_ret; }                               /* 1 = acquired, 0 = busy */
int sb_spin_unlock(myth_spinlock_t *l){ BODY(6); a1 = l; return 0; }
int sb_cond_wait(myth_cond_t *c, myth_mutex_t *m){ BODY(7); a1 = c; a2 = m; return 0; }
int sb_cond_signal(myth_cond_t *c){ BODY(8); a1 = c; return 0; }
int sb_cond_broadcast(myth_cond_t *c){ BODY(9); a1 = c; return 0; }
int sb_barrier_wait(myth_barrier_t *b){ BODY(10); a1 = b; body_ret = (VERIF_CHOICE() & 1) ? MYTH_BARRIER_SERIAL_THREAD : 0; return (int)body_ret; }
int sb_once(myth_once_t *o, void (*f)(void)){ BODY(11); a1 = o; a2 = (void*)f; return 0; }
int sb_join(myth_thread_t t, void **r){ BODY(12); a1 = t; a2 = r; return 0; }
int sb_tryjoin(myth_thread_t t, void **r){ BODY(13); a1 = t; a2 = r; body_ret = (VERIF_CHOICE() & 1) ? 0 : EBUSY; return (int)body_ret; }
int sb_detach(myth_thread_t t){ BODY(14); a1 = t; return 0; }
int sb_create_ex(myth_thread_t *id, myth_thread_attr_t *attr, myth_func_t f, void *arg){ BODY(15); a1 = id; a2 = (void*)f; a3 = arg; seen_attr_null = !attr; if (attr) seen_attr = *attr; return 0; }
int sb_key_create(myth_key_t *k, void (*d)(void*)){ BODY(16); a1 = k; a2 = (void*)d; body_ret = (VERIF_CHOICE() & 1) ? 0 : EINVAL; return (int)body_ret; }
int sb_setspecific(myth_key_t k, const void *v){ BODY(17); a1 = (void*)(long)k; a2 = (void*)v; return 0; }
static int tsdv; void *sb_getspecific(myth_key_t k){ BODY(18); a1 = (void*)(long)k; return &tsdv; }
static struct myth_thread SELF; myth_thread_t sb_self(void){ BODY(19); return &SELF; }
int sb_yield(void){ BODY(20); return 0; }
int sb_mutex_init(myth_mutex_t *m, const myth_mutexattr_t *at){ BODY(21); a1 = m; a2 = (void*)at; return 0; }
int sb_barrier_init(myth_barrier_t *b, const myth_barrierattr_t *at, long n){ BODY(22); a1 = b; a2 = (void*)at; a3 = (void*)n; return 0; }
/* ---- real_* stubs ---- */
#define REAL() (n_real++, real_ret = VERIF_CHOICE(), (int)real_ret)
int real_pthread_mutex_lock(pthread_mutex_t *m){ a1 = m; return REAL(); }
int real_pthread_mutex_trylock(pthread_mutex_t *m){ a1 = m; return REAL(); }
int real_pthread_mutex_unlock(pthread_mutex_t *m){ a1 = m; return REAL(); }
int real_pthread_spin_lock(pthread_spinlock_t *l){ a1 = (void*)l; return REAL(); }
int real_pthread_spin_trylock(pthread_spinlock_t *l){ a1 = (void*)l; return REAL(); }
int real_pthread_spin_unlock(pthread_spinlock_t *l){ a1 = (void*)l; return REAL(); }
int real_pthread_cond_wait(pthread_cond_t *c, pthread_mutex_t *m){ a1 = c; a2 = m; return REAL(); }
int real_pthread_cond_signal(pthread_cond_t *c){ a1 = c; return REAL(); }
int real_pthread_cond_broadcast(pthread_cond_t *c){ a1 = c; return REAL(); }
int real_pthread_barrier_wait(pthread_barrier_t *b){ a1 = b; return REAL(); }
int real_pthread_once(pthread_once_t *o, void (*f)(void)){ a1 = o; a2 = (void*)f; return REAL(); }
int real_pthread_join(pthread_t t, void **r){ a1 = (void*)t; a2 = r; return REAL(); }
int real_pthread_tryjoin_np(pthread_t t, void **r){ a1 = (void*)t; a2 = r; return REAL(); }
int real_pthread_detach(pthread_t t){ a1 = (void*)t; return REAL(); }
int real_pthread_create(pthread_t *t, const pthread_attr_t *at, void *(*f)(void*), void *arg){ a1 = t; a2 = (void*)f; a3 = arg; a4 = (void*)at; return REAL(); }
int real_pthread_key_create(pthread_key_t *k, void (*d)(void*)){ a1 = k; a2 = (void*)d; return REAL(); }
int real_pthread_setspecific(pthread_key_t k, const void *v){ a1 = (void*)(long)k; a2 = (void*)v; return REAL(); }
void *real_pthread_getspecific(pthread_key_t k){ a1 = (void*)(long)k; n_real++; return &tsdv; }
pthread_t real_pthread_self(void){ n_real++; return (pthread_t)0x77; }
int real_pthread_yield(void){ return REAL(); }
int real_sched_yield(void){ return REAL(); }
int real_pthread_equal(pthread_t x, pthread_t y){ n_real++; return x == y; }
int real_pthread_mutex_init(pthread_mutex_t *m, const pthread_mutexattr_t *at){ a1 = m; a2 = (void*)at; return REAL(); }
int real_pthread_barrier_init(pthread_barrier_t *b, const pthread_barrierattr_t *at, unsigned n){ a1 = b; a2 = (void*)at; a3 = (void*)(long)n; return REAL(); }

static void *thr(void *x){ return x; } static void initr(void){ } static void dtor(void *v){ (void)v; }
#define FWD(rc, posix_ok) do { if (wrap_mode == 0) { CHECK(n_real == 1 && n_body == 0, "C16 with MYTH_WRAP_PTHREAD=0 only the system function is called"); CHECK((rc) == (int)real_ret, "C16 pass-through returns the system function's result"); } \
                               else { CHECK(n_body == 1 && n_real == 0, "C16 the wrapper calls the corresponding MassiveThreads body exactly once"); CHECK(posix_ok, "C16 the wrapper returns what POSIX specifies for this call"); } } while (0)
int main(void){
  wrap_mode = VERIF_CHOICE(); ASSUME(wrap_mode >= 0 && wrap_mode <= 2);
  int ep = VERIF_CHOICE();
#ifdef EP_LO
  ASSUME(ep >= EP_LO && ep <= EP_HI);
#endif
  static pthread_mutex_t pm; static pthread_cond_t pc; static pthread_barrier_t pb; static pthread_spinlock_t ps; static pthread_once_t po;
  static pthread_t pt; static pthread_key_t pk; static int arg; void *res = 0; int rc = 0;
  int static_init = VERIF_CHOICE() & 1;        /* the mutex is a never-touched PTHREAD_MUTEX_INITIALIZER (all zero) or already converted */
  if (!static_init) ((myth_mutex_t *)&pm)->magic = myth_mutex_magic_no;
  switch (ep) {
  case 1: rc = __wrap_pthread_mutex_lock(&pm); FWD(rc, rc == 0 && a1 == &pm); break;
  case 2: rc = __wrap_pthread_mutex_trylock(&pm); FWD(rc, (rc == 0 || rc == EBUSY) && rc == (int)body_ret && a1 == &pm); break;
  case 3: rc = __wrap_pthread_mutex_unlock(&pm); FWD(rc, rc == 0 && a1 == &pm); break;
  case 4: rc = __wrap_pthread_spin_lock(&ps); FWD(rc, rc == 0 && a1 == (void*)&ps); break;
  case 5: rc = __wrap_pthread_spin_trylock(&ps); FWD(rc, (body_ret == 1 ? rc == 0 : rc == EBUSY) && a1 == (void*)&ps); break;
  case 6: rc = __wrap_pthread_spin_unlock(&ps); FWD(rc, rc == 0 && a1 == (void*)&ps); break;
  case 7: rc = __wrap_pthread_cond_wait(&pc, &pm); FWD(rc, rc == 0 && a1 == &pc && a2 == &pm); break;
  case 8: rc = __wrap_pthread_cond_signal(&pc); FWD(rc, rc == 0 && a1 == &pc); break;
  case 9: rc = __wrap_pthread_cond_broadcast(&pc); FWD(rc, rc == 0 && a1 == &pc); break;
  case 10: rc = __wrap_pthread_barrier_wait(&pb); FWD(rc, (body_ret == MYTH_BARRIER_SERIAL_THREAD ? rc == PTHREAD_BARRIER_SERIAL_THREAD : rc == 0) && a1 == &pb); break;
  case 11: rc = __wrap_pthread_once(&po, initr); FWD(rc, rc == 0 && a1 == &po && a2 == (void*)initr); break;
  case 12: rc = __wrap_pthread_join((pthread_t)&SELF, &res); FWD(rc, rc == 0 && a1 == &SELF && a2 == &res); break;
  case 13: rc = __wrap_pthread_tryjoin_np((pthread_t)&SELF, &res); FWD(rc, (rc == 0 || rc == EBUSY) && rc == (int)body_ret && a1 == &SELF); break;
  case 14: rc = __wrap_pthread_detach((pthread_t)&SELF); FWD(rc, rc == 0 && a1 == &SELF); break;
  case 15: rc = __wrap_pthread_create(&pt, 0, thr, &arg); FWD(rc, rc == 0 && a1 == &pt && a2 == (void*)thr && a3 == &arg && seen_attr_null); break;
  case 16: { static pthread_attr_t pa;                     /* attribute object: translation must leave nothing undetermined */
    pa_detach = (VERIF_CHOICE() & 1) ? PTHREAD_CREATE_DETACHED : PTHREAD_CREATE_JOINABLE; pa_stacksize = VERIF_CHOICE(); pa_stackaddr = &arg;
    myth_thread_attr_t defaults; myth_thread_attr_init_body(&defaults);
    rc = __wrap_pthread_create(&pt, &pa, thr, &arg);
    FWD(rc, rc == 0 && a1 == &pt && a2 == (void*)thr && a3 == &arg && !seen_attr_null);
    if (wrap_mode != 0) {
      CHECK(seen_attr.stacksize == pa_stacksize && seen_attr.stackaddr == pa_stackaddr, "C16 pthread attribute translation carries stack address and size");
      CHECK(seen_attr.detachstate == pa_detach, "C16 pthread attribute translation carries the detach state");
      CHECK(seen_attr.custom_data_size == 0 && seen_attr.custom_data == 0, "C16 attribute fields the caller never set are determined (no stack garbage reaches thread creation)");
      CHECK(seen_attr.child_first == defaults.child_first && seen_attr.guardsize == defaults.guardsize, "C16 remaining attribute fields equal the defaults");
    } } break;
  case 17: rc = __wrap_pthread_key_create(&pk, dtor); FWD(rc, rc == (int)body_ret && a1 == &pk && a2 == (void*)dtor); break;
  case 18: rc = __wrap_pthread_setspecific(pk, &arg); FWD(rc, rc == 0 && a2 == &arg); break;
  case 19: { void *v = __wrap_pthread_getspecific(pk); if (wrap_mode == 0) CHECK(n_real == 1 && n_body == 0, "C16 pass-through"); else CHECK(n_body == 1 && v == &tsdv, "C16 getspecific forwards the stored value"); } break;
  case 20: { pthread_t s = __wrap_pthread_self(); if (wrap_mode == 0) CHECK(n_real == 1 && s == (pthread_t)0x77, "C16 pass-through"); else CHECK(n_body == 1 && s == (pthread_t)&SELF, "C16 pthread_self is the MassiveThreads thread"); } break;
  case 21: rc = __wrap_sched_yield(); FWD(rc, rc == 0); break;
  case 22: { static pthread_mutexattr_t pma; pma_type = PTHREAD_MUTEX_DEFAULT; rc = __wrap_pthread_mutex_init(&pm, VERIF_CHOICE() & 1 ? &pma : 0); FWD(rc, rc == 0 && a1 == &pm); } break;
  case 23: rc = __wrap_pthread_barrier_init(&pb, 0, 3); FWD(rc, rc == 0 && a1 == &pb && a3 == (void*)3L); break;
  case 24: { int e = __wrap_pthread_equal((pthread_t)&SELF, (pthread_t)&SELF); if (wrap_mode != 0) CHECK(e != 0, "C16 pthread_equal on the same thread is non-zero"); } break;
  default: ASSUME(0);
  }
  if (wrap_mode != 0 && (ep == 1 || ep == 2 || ep == 3))   /* cond_wait requires a mutex the caller already locked, i.e. already converted */
    CHECK(((myth_mutex_t *)&pm)->magic == myth_mutex_magic_no, "C16 a statically initialised mutex is converted before its first use");
  CHECK(sizeof(myth_mutex_t) <= sizeof(pthread_mutex_t) && sizeof(myth_cond_t) <= sizeof(pthread_cond_t) && sizeof(myth_barrier_t) <= sizeof(pthread_barrier_t)
        && sizeof(myth_spinlock_t) <= sizeof(pthread_spinlock_t) && sizeof(myth_once_t) <= sizeof(pthread_once_t) && sizeof(myth_key_t) <= sizeof(pthread_key_t), "C16 MassiveThreads objects fit into the pthread objects they overlay");
  WITNESS();
  return 0;
}
