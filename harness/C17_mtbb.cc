// C17 (engine B, plain mode): the TBB-like layer (src/mtbb/task_group.h, src/mtbb/parallel_for.h), real C++ headers
// lowered by clang++ to IR and translated to C.  myth_create = "run the task now" and myth_join = no-op
// (the concurrent create/join protocol is C01); every index / task must be executed exactly once.
#include <myth/myth.h>
#include <mtbb/parallel_for.h>
extern "C" {
long nondet_long(void);
void verif_check(int c, const char *msg);
void verif_witness(int c);
void verif_assume(int c);
#ifndef SPAN
#define SPAN 6
#endif
int hits[SPAN + 8]; int n_spawn, spawn_limit, n_join; int tasks_run[12];
static struct { int tag; } TOKEN;
myth_thread_t myth_create(myth_func_t f, void *a){
  n_spawn++;
  verif_check(n_spawn <= spawn_limit, "C17 the number of tasks spawned is bounded by the range size (an empty range spawns nothing, the recursion terminates)");
  if (n_spawn <= spawn_limit) f(a);          /* run the task to completion now; beyond the bound the run is cut (already reported) */
  return (myth_thread_t)&TOKEN;
}
int myth_join(myth_thread_t t, void **r){ (void)t; (void)r; n_join++; return 0; }
}
struct Body { void operator()(long i) const { if (i >= -4 && i < SPAN + 4) hits[i + 4]++; else hits[0] += 100; } };
struct Task { int k; Task(int k_) : k(k_) {} void operator()() const { tasks_run[k]++; } };
extern "C" void verif_main(void){
#ifndef SCEN
#define SCEN 0
#endif
#if SCEN == 0
  {                                // parallel_for(first, last, f)
    long first = nondet_long(), last = nondet_long();
    verif_assume(first >= -2 && first <= SPAN && last >= -2 && last <= SPAN && last - first <= 3);
    long n = last > first ? last - first : 0;
    spawn_limit = n > 0 ? (int)n - 1 : 0;
    mtbb::parallel_for(first, last, Body());
    for (long i = -4; i < SPAN + 4; i++) verif_check(hits[i + 4] == ((i >= first && i < last) ? 1 : 0), "C17 parallel_for calls the body exactly once for every index of the range and for no other index");
    verif_check(n_join == n_spawn, "C17 every spawned task has been waited for");
    verif_witness(n == 3);
  }
#elif SCEN == 1
  {                                // parallel_for(first, last, step, f)
    long first = nondet_long(), last = nondet_long(), step = nondet_long();
    verif_assume(first >= -2 && first <= SPAN && last >= -2 && last <= SPAN && step >= 1 && step <= 3 && last - first <= 3 * step);
    long n = 0; for (long i = first; i < last; i += step) n++;
    spawn_limit = n > 0 ? (int)n - 1 : 0;
    mtbb::parallel_for(first, last, step, Body());
    for (long i = -4; i < SPAN + 4; i++) { int want = (i >= first && i < last && ((i - first) % step) == 0) ? 1 : 0;
      verif_check(hits[i + 4] == want, "C17 stepped parallel_for calls the body exactly once for first + k*step < last"); }
    verif_witness(n == 3 && step == 2);
  }
#else
  {                                // task_group: k run() calls (more than the inline capacity of 8), wait
#ifdef KTASKS
    long k = KTASKS;                 /* number of run() calls fixed per query (symbolic k: 21 GB, no verdict) */
#else
    long k = nondet_long(); verif_assume(k >= 0 && k <= 5);
#endif
    spawn_limit = 6;
    mtbb::task_group tg;
    for (long i = 0; i < 5; i++) if (i < k) tg.run(Task((int)i));
    tg.wait();
    for (long i = 0; i < 5; i++) verif_check(tasks_run[i] == (i < k ? 1 : 0), "C17 every task handed to a task group has completed exactly once when wait returns");
    verif_check(n_join == k && n_spawn == k, "C17 wait joins every task of the group");
    // the group is reusable after wait
    tg.run(Task(10)); tg.wait();
    verif_check(tasks_run[10] == 1 && n_join == k + 1, "C17 a task group is reusable after wait");
    verif_witness(1);
  }
#endif
}
