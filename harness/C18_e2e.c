/* C18 (engine A): whole recorded executions through the public instrumentation entry points.
 *
 * A serial simulator drives the real dr_start_task__ / dr_enter_create_task__ / dr_return_from_create_task__ /
 * dr_enter_wait_tasks__ / dr_return_from_wait_tasks__ / dr_enter_other__ / dr_return_from_other__ / dr_end_task__
 * for a fixed small program (-DPROG) in a fixed call order (-DORDER: child first or parent first), with
 *   - the clock an arbitrary non-decreasing sequence (dr_get_tsc replaced by a stub),
 *   - the worker of every task segment symbolic (a task may come back on another worker after create/wait/other),
 *   - every contraction option symbolic (span and count based; the node-count target is fixed to 0 here).
 * The oracle is computed by the simulator from its own clock readings with the closed formulas of the program's
 * DAG; it never looks at the recorder's data.  At the end the root's totals must equal the oracle.
 *
 * Per-worker state: the real fixed-array lookup over a static array with pre-filled node free lists.
 * Replaced (goto-instrument --replace-calls): dr_get_tsc -> clock stub; dr_free_dag -> its effect on the graph (see stub_free_dag).
 */
#define DAG_RECORDER 2
#include "dag_recorder.c"
#include "verif_a.h"
#ifdef C19_PIDAG
#include "dr_dump.c"
#endif
#ifdef VERIF_NATIVE
#include "options.c"
#include "papi_counters.c"
#endif

#ifndef PROG
#define PROG 0
#endif
#ifndef ORDER
#define ORDER 0
#endif
#ifndef NW
#define NW 3
#endif
#ifndef NNODES
#define NNODES 12
#endif

static dr_worker_specific_state WSS[NW];
static dr_dag_node POOL0[NNODES], POOL1[NNODES], POOL2[NNODES];   /* one 1-D pool per worker (a 2-D array cost cbmc its constant propagation) */
static dr_prune_nodes_stack_ent PSE[NW][4];

void *stub_dr_malloc(size_t sz){   /* constant-size fresh objects: cbmc gives every call its own object, no symbolic pool index */
  if (sz == sizeof(dr_dag_node_stack_cell)) return malloc(sizeof(dr_dag_node_stack_cell));
  __CPROVER_assert(sz <= sizeof(dr_dag_node *) * 8, "unwinding assertion: harness pointer-array bound"); return malloc(sizeof(dr_dag_node *) * 8);
}
void stub_dr_free(void *a, size_t sz){ (void)a; (void)sz; }
/* dr_free_dag is replaced by its effect on the graph (descendants dropped; they are not recycled here): the real traversal is
   exercised by the step queries (C18_step.c), where it runs on S itself */
/* the pre-filled free lists never run dry within the programs below; if they did, the query is reported as undecided */
static dr_dag_node SPARE;
dr_dag_node *stub_add_page(dr_dag_node_freelist *fl, size_t sz){
  (void)sz; __CPROVER_assert(0, "unwinding assertion: harness node pool exhausted");
  SPARE.next = 0; fl->head = fl->tail = &SPARE; return &SPARE;
}
static int n_contracted;
void stub_free_dag(dr_dag_node *g, int free_root, dr_dag_node_freelist *fl){
  (void)fl; n_contracted++;
  if (!free_root){ g->subgraphs->n = 0; g->subgraphs->head = g->subgraphs->tail = 0; }
}

static unsigned long long CLK;
unsigned long long stub_tsc(void){
  unsigned long long d = ((unsigned long long)(unsigned)VERIF_CHOICE() << 8) | ((unsigned)VERIF_CHOICE() & 255);
  CLK += d; return CLK;
}
static unsigned long long nd_ull(void){ return ((unsigned long long)(unsigned)VERIF_CHOICE() << 32) | (unsigned)VERIF_CHOICE(); }
#ifdef WPAT   /* case split on the worker assignment: the i-th worker choice is the i-th base-NW digit of WPAT */
static int n_wc;
static int nd_worker(void){ int i, d = WPAT; for (i = 0; i < n_wc; i++) d /= NW; n_wc++; return d % NW; }
#else
static int nd_worker(void){ int w = VERIF_CHOICE(); ASSUME(w >= 0 && w < NW); return w; }
#endif

/* simulator-side task record */
typedef struct { dr_dag_node *node; int w; unsigned long long t0; } sim_task;
static unsigned long long iv[16]; static int n_iv;          /* interval lengths in the order the intervals close */
static void close_iv(sim_task *t){ iv[n_iv++] = CLK - t->t0; }

static void sim_start(sim_task *t, dr_dag_node *parent_create_node){
  t->w = nd_worker(); dr_start_task__(parent_create_node, "f", 1, t->w);
  t->node = WSS[t->w].task; t->t0 = CLK;
}
static dr_dag_node *sim_enter_create(sim_task *t){ dr_dag_node *c = 0; dr_dag_node *r = dr_enter_create_task__(&c, "f", 2, t->w); close_iv(t); CHECK(r == t->node, "C18 the task handed back is the running task"); return c; }
static void sim_return_create(sim_task *t){ t->w = nd_worker(); dr_return_from_create_task__(t->node, "f", 3, t->w); t->t0 = CLK; }
static void sim_enter_wait(sim_task *t){ dr_enter_wait_tasks__("f", 4, t->w); close_iv(t); }
static void sim_return_wait(sim_task *t){ t->w = nd_worker(); dr_return_from_wait_tasks__(t->node, "f", 5, t->w); t->t0 = CLK; }
static void sim_enter_other(sim_task *t){ dr_enter_other__("f", 6, t->w); close_iv(t); }
static void sim_return_other(sim_task *t){ t->w = nd_worker(); dr_return_from_other__(t->node, "f", 7, t->w); t->t0 = CLK; }
static void sim_end(sim_task *t){ dr_end_task__("f", 8, t->w); close_iv(t); }

static unsigned long long max2(unsigned long long a, unsigned long long b){ return a > b ? a : b; }

#ifdef C19_PIDAG
/* ---- C19: flatten the recorded DAG with the real dr_make_pi_dag, shrink it with the real dr_copy_pi_dag, and validate both
   with a structural validator written independently of the library ---- */
#ifndef CMC
#define CMC 0
#endif
#ifndef CMC2
#define CMC2 0
#endif
#ifndef C19_NMAX
#define C19_NMAX 16
#endif
/* typed allocation sites (text patches on the preprocessed copy redirect the four dr_malloc calls of dr_dump.c that allocate the
   node array, the edge array and the index map to these): static typed arrays, so that cbmc keeps constant propagation */
static dr_pi_dag_node C19_TB[2][C19_NMAX]; static int c19_tk;
static dr_pi_dag_edge C19_EB[2][2 * C19_NMAX]; static int c19_ek;
static long C19_MAP[C19_NMAX];
void *c19_alloc_nodes(size_t sz){ __CPROVER_assert(sz <= sizeof(C19_TB[0]) && c19_tk < 2, "unwinding assertion: harness node-array bound"); return c19_tk++ == 0 ? (void *)C19_TB[0] : (void *)C19_TB[1]; }
void *c19_alloc_edges(size_t sz){ __CPROVER_assert(sz <= sizeof(C19_EB[0]) && c19_ek < 2, "unwinding assertion: harness edge-array bound"); return c19_ek++ == 0 ? (void *)C19_EB[0] : (void *)C19_EB[1]; }
void *c19_alloc_map(size_t sz){ __CPROVER_assert(sz <= sizeof(C19_MAP), "unwinding assertion: harness map bound"); return (void *)C19_MAP; }
/* environment: qsort according to its contract (typed insertion sort over the edge array, calling the real comparison) */
void qsort(void *base, size_t n, size_t sz, int (*cmp)(const void *, const void *)){
  dr_pi_dag_edge *E = (dr_pi_dag_edge *)base; size_t i, j;
  __CPROVER_assert(sz == sizeof(dr_pi_dag_edge), "VERIF model: qsort is only used on the edge array");
  for (i = 1; i < n; i++){ dr_pi_dag_edge k = E[i]; j = i;
    while (j > 0 && edge_cmp(&E[j - 1], &k) > 0){ E[j] = E[j - 1]; j--; }
    E[j] = k; }
  (void)cmp;
}
static long c19_refs[C19_NMAX];
static void c19_validate(dr_pi_dag *G, const char *unused){
  long n = G->n, m = G->m, i, j; (void)unused;
  CHECK(n >= 1 && n <= C19_NMAX && m >= 0 && m <= 2 * C19_NMAX, "C19 node and edge counts within the harness bound");
  for (i = 0; i < C19_NMAX; i++) c19_refs[i] = 0;
  for (i = 0; i < C19_NMAX; i++) if (i < n){
    dr_pi_dag_node *u = &G->T[i];
    if (u->info.kind == dr_dag_node_kind_create_task){
      long c = i + u->child_offset;
      CHECK(u->child_offset > 0 && c < n, "C19 a create node's child offset refers to a later node inside the DAG");
      if (c > 0 && c < n){ CHECK(G->T[c].info.kind == dr_dag_node_kind_task, "C19 the child of a create node is a task"); c19_refs[c]++; }
    } else if (u->info.kind >= dr_dag_node_kind_section){
      long a = i + u->subgraphs_begin_offset, b = i + u->subgraphs_end_offset;
      CHECK(u->subgraphs_begin_offset <= u->subgraphs_end_offset, "C19 subgraph range is not reversed");
      if (u->subgraphs_begin_offset < u->subgraphs_end_offset){
        CHECK(a > i && b <= n, "C19 subgraph range refers to later nodes inside the DAG");
        for (j = 0; j < C19_NMAX; j++) if (j >= a && j < b && j < n) c19_refs[j]++;
        if (b >= 1 && b <= n){ dr_dag_node_kind_t lk = G->T[b - 1].info.kind;
          CHECK(lk == (u->info.kind == dr_dag_node_kind_task ? dr_dag_node_kind_end_task : dr_dag_node_kind_wait_tasks), "C19 a task ends with an end node, a section with a wait node"); }
      }
    } else CHECK(u->info.kind == dr_dag_node_kind_wait_tasks || u->info.kind == dr_dag_node_kind_end_task || u->info.kind == dr_dag_node_kind_other, "C19 node kind is valid");
    /* edges grouped by source */
    CHECK(0 <= u->edges_begin && u->edges_begin <= u->edges_end && u->edges_end <= m, "C19 edge range of a node lies inside the edge array");
    if (i == 0) CHECK(u->edges_begin == 0, "C19 edge ranges start at 0");
    if (i == n - 1) CHECK(u->edges_end == m, "C19 edge ranges end at m");
    if (i + 1 < n) CHECK(u->edges_end == G->T[i + 1].edges_begin, "C19 edge ranges of consecutive nodes are contiguous");
    for (j = 0; j < 2 * C19_NMAX; j++) if (j < m && j >= u->edges_begin && j < u->edges_end) CHECK(G->E[j].u == i, "C19 edges are grouped by source node");
  }
  for (i = 1; i < C19_NMAX; i++) if (i < n) CHECK(c19_refs[i] == 1, "C19 every node except the root is the child of exactly one node (reachable, no sharing)");
  CHECK(c19_refs[0] == 0, "C19 the root is nobody's child");
  for (j = 0; j < 2 * C19_NMAX; j++) if (j < m){
    dr_pi_dag_edge *e = &G->E[j];
    CHECK(e->u >= 0 && e->u < n && e->v >= 0 && e->v < n, "C19 edge endpoints refer to nodes inside the DAG");
    if (e->u >= 0 && e->u < n && e->v >= 0 && e->v < n){
      dr_pi_dag_node *a = &G->T[e->u], *b = &G->T[e->v];
      CHECK(!(a->info.kind >= dr_dag_node_kind_section && a->subgraphs_begin_offset < a->subgraphs_end_offset)
            && !(b->info.kind >= dr_dag_node_kind_section && b->subgraphs_begin_offset < b->subgraphs_end_offset), "C19 edges connect leaves (intervals or contracted subgraphs)");
      CHECK(e->kind >= 0 && e->kind < dr_dag_edge_kind_max, "C19 edge kind is valid");
    }
    if (j + 1 < m) CHECK(e->u <= G->E[j + 1].u, "C19 edge array is sorted by source");
  }
}
static void c19_flatten_and_validate(dr_dag_node *root){
  static dr_pi_dag G, G2;
  dr_make_pi_dag(&G, root, GS.start_clock);
  c19_validate(&G, "recorded");
  CHECK(G.T[0].info.t_1 == root->info.t_1 && G.T[0].info.t_inf == root->info.t_inf, "C19 the flattened root carries the recorded totals");
#ifndef C19_NOSHRINK
  /* conversion-time shrinking with its own (concrete) threshold */
  GS.opts.collapse_max_count = CMC2; GS.opts.uncollapse_min = 0; GS.opts.collapse_max = 0;
  dr_copy_pi_dag(&G2, &G);
  c19_validate(&G2, "shrunk");
  CHECK(G2.n <= G.n, "C19 shrinking never adds nodes");
  { int k; CHECK(G2.T[0].info.t_1 == G.T[0].info.t_1 && G2.T[0].info.t_inf == G.T[0].info.t_inf, "C19 shrinking preserves work and critical path");
    for (k = 0; k < dr_dag_node_kind_section; k++) CHECK(G2.T[0].info.logical_node_counts[k] == G.T[0].info.logical_node_counts[k], "C19 shrinking preserves the interval counts");
    for (k = 0; k < dr_dag_edge_kind_max; k++) CHECK(G2.T[0].info.logical_edge_counts[k] == G.T[0].info.logical_edge_counts[k], "C19 shrinking preserves the edge counts"); }
#endif
  WITNESS_IF(G.n > 1);
}
#endif

int main(void){
  int w, i;
  for (w = 0; w < NW; w++){
    dr_dag_node *pool = w == 0 ? POOL0 : w == 1 ? POOL1 : POOL2;
    for (i = 0; i < NNODES - 1; i++) pool[i].next = &pool[i + 1];
    pool[NNODES - 1].next = 0;
    WSS[w].freelist->head = &pool[0]; WSS[w].freelist->tail = &pool[NNODES - 1]; WSS[w].freelist->pages = 0;
    WSS[w].prune_stack->entries = PSE[w]; WSS[w].prune_stack->sz = 4; WSS[w].prune_stack->n = 0;
    WSS[w].worker = w; WSS[w].task = 0; WSS[w].parent = 0;
  }
  GS.initialized = 1; GS.generation = 1; GS.worker_specific_state_array = WSS; GS.worker_specific_state_array_sz = NW;   /* the fixed-array mechanism of the real lookup */
  GS.opts.node_count_target = 0;
#ifdef C19_PIDAG   /* the shape of the recorded DAG is fixed per query: contraction by node count with a concrete threshold (0 = none) */
  GS.opts.collapse_max_count = CMC; GS.opts.uncollapse_min = 0; GS.opts.collapse_max = 0;
#else
  GS.opts.collapse_max_count = (long)(unsigned)VERIF_CHOICE(); GS.opts.uncollapse_min = nd_ull(); GS.opts.collapse_max = nd_ull();
#endif
  CLK = 1 + ((unsigned)VERIF_CHOICE() & 0xffff); GS.start_clock = CLK;

  sim_task R, A, B, C; dr_dag_node *ca, *cb, *cc;
  unsigned long long e_work = 0, e_cp = 0; long e_create = 0, e_wait = 0, e_end = 0, e_other = 0;
  sim_start(&R, 0);
#if PROG == 0      /* root { create A{} ; wait } */
  ca = sim_enter_create(&R);                                   /* iv0 = r1 */
#if ORDER == 0     /* child first: A runs to completion before the parent continues (possibly on another worker) */
  sim_start(&A, ca); sim_end(&A);                              /* iv1 = a  */
  sim_return_create(&R); sim_enter_wait(&R);                   /* iv2 = r2 */
#else              /* parent first: the parent continues; A runs meanwhile on another worker */
  sim_return_create(&R);
  sim_start(&A, ca); ASSUME(A.w != R.w); sim_end(&A);          /* iv1 = a  */
  sim_enter_wait(&R);                                          /* iv2 = r2 */
#endif
  { unsigned long long r1 = iv[0], a = iv[1], r2 = iv[2];
  sim_return_wait(&R); sim_end(&R);                            /* iv3 = r3 */
    unsigned long long r3 = iv[3];
    e_work = r1 + a + r2 + r3; e_cp = max2(r1 + r2, r1 + a) + r3; }
  e_create = 1; e_wait = 1; e_end = 2; e_other = 0;
#elif PROG == 1    /* root { create A{ create B{}; wait }; other; create C{}; wait } */
  ca = sim_enter_create(&R);                                   /* iv0 = r1 */
#if ORDER == 1     /* the parent continues on its own worker while A (and B) run on others */
  sim_start(&A, ca);
  sim_return_create(&R); ASSUME(R.w != A.w);
  cb = sim_enter_create(&A);                                   /* iv1 = a1 */
  sim_start(&B, cb); ASSUME(B.w != R.w); sim_end(&B);          /* iv2 = b  */
  sim_return_create(&A); ASSUME(A.w != R.w);
  sim_enter_other(&R);                                         /* iv3 = r2 */
  sim_enter_wait(&A);                                          /* iv4 = a2 */
  sim_return_other(&R);
  sim_return_wait(&A); ASSUME(A.w != R.w); sim_end(&A);        /* iv5 = a3 */
  { unsigned long long r2 = iv[3], a2 = iv[4], a3 = iv[5];
#else
  sim_start(&A, ca);
  cb = sim_enter_create(&A);                                   /* iv1 = a1 */
  sim_start(&B, cb); sim_end(&B);                              /* iv2 = b  */
  sim_return_create(&A); sim_enter_wait(&A);                   /* iv3 = a2 */
  sim_return_wait(&A); sim_end(&A);                            /* iv4 = a3 */
  sim_return_create(&R); sim_enter_other(&R);                  /* iv5 = r2 */
  sim_return_other(&R);
  { unsigned long long a2 = iv[3], a3 = iv[4], r2 = iv[5];
#endif
  cc = sim_enter_create(&R);                                   /* iv6 = r3 */
  sim_start(&C, cc); sim_end(&C);                              /* iv7 = c  */
  sim_return_create(&R); sim_enter_wait(&R);                   /* iv8 = r4 */
  sim_return_wait(&R); sim_end(&R);                            /* iv9 = r5 */
    unsigned long long r1 = iv[0], a1 = iv[1], b = iv[2], r3 = iv[6], c = iv[7], r4 = iv[8], r5 = iv[9];
    unsigned long long cpA = max2(a1 + a2, a1 + b) + a3;
    e_work = r1 + a1 + b + a2 + a3 + r2 + r3 + c + r4 + r5;
    e_cp = max2(max2(r1 + r2 + r3 + r4, r1 + cpA), r1 + r2 + r3 + c) + r5; }
  e_create = 3; e_wait = 2; e_end = 4; e_other = 1;
#elif PROG == 2    /* root { create A{}; wait; create B{}; wait } : two sections in a row */
  ca = sim_enter_create(&R);                                   /* iv0 = r1 */
  sim_start(&A, ca); sim_end(&A);                              /* iv1 = a  */
  sim_return_create(&R); sim_enter_wait(&R);                   /* iv2 = r2 */
  sim_return_wait(&R);
  cb = sim_enter_create(&R);                                   /* iv3 = r3 */
  sim_start(&B, cb); sim_end(&B);                              /* iv4 = b  */
  sim_return_create(&R); sim_enter_wait(&R);                   /* iv5 = r4 */
  sim_return_wait(&R); sim_end(&R);                            /* iv6 = r5 */
  { unsigned long long r1 = iv[0], a = iv[1], r2 = iv[2], r3 = iv[3], b = iv[4], r4 = iv[5], r5 = iv[6];
    e_work = r1 + a + r2 + r3 + b + r4 + r5; e_cp = max2(r1 + r2, r1 + a) + max2(r3 + r4, r3 + b) + r5; }
  e_create = 2; e_wait = 2; e_end = 3; e_other = 0;
#endif
  dr_dag_node *root = R.node;
  CHECK(root->info.t_1 == e_work, "C18 work = sum of all interval lengths, whatever was contracted and whoever ran what");
  CHECK(root->info.t_inf == e_cp, "C18 critical path = longest dependency chain, whatever was contracted");
  CHECK(root->info.t_inf <= root->info.t_1, "C18 critical path never exceeds work");
  CHECK(root->info.logical_node_counts[dr_dag_node_kind_create_task] == e_create && root->info.logical_node_counts[dr_dag_node_kind_wait_tasks] == e_wait
        && root->info.logical_node_counts[dr_dag_node_kind_end_task] == e_end && root->info.logical_node_counts[dr_dag_node_kind_other] == e_other,
        "C18 numbers of create/wait/end/other intervals");
  CHECK(root->info.logical_edge_counts[dr_dag_edge_kind_create] == e_create && root->info.logical_edge_counts[dr_dag_edge_kind_create_cont] == e_create
        && root->info.logical_edge_counts[dr_dag_edge_kind_wait_cont] == e_wait && root->info.logical_edge_counts[dr_dag_edge_kind_end] == e_create,
        "C18 numbers of edges by kind (create, create_cont, wait_cont, end)");
#ifdef C19_PIDAG
  c19_flatten_and_validate(root);
#else
  WITNESS_IF(root->subgraphs->n == 0);      /* a fully contracted root is reachable ... */
#endif
  WITNESS();
  return 0;
}
