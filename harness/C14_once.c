/* C14: myth_once with VN concurrent callers and an init routine that yields */
#ifndef VN
#define VN 2
#endif
#ifndef MODE
#define MODE 0
#endif
#include "verif_model.h"
/* myth_yield() inside myth_once_wait_until: modelled as a plain scheduling yield (the real yield is C02/C01) */
#define myth_yield verif_myth_yield
static inline int verif_myth_yield(void){ verif_yield(); return 0; }
#include "myth_sync_func.h"
#undef myth_yield
#include "verif_model_impl.h"
int verif_blocked(int t); int verif_stuck(void);
myth_once_t O;
volatile int init_count; volatile int init_completed;
static void init_routine(void){
  init_count++;
  verif_yield();            /* the init routine may yield / block */
  init_completed = 1;
}
void verif_init(void){ verif_model_init(); }
static inline void caller(int me){
  (void)me;
  int r = myth_once_body(&O, init_routine);
  verif_check(r == 0, "C14 once returns 0");
  verif_check(init_completed, "C14 no caller returns before the init routine has completed");
  verif_check(init_count == 1, "C14 init routine executed exactly once");
#if MODE == 1
  r = myth_once_body(&O, init_routine);
  verif_check(init_count == 1 && !verif_blocked(me), "C14 a later call returns immediately without running the routine");
#endif
}
void t0(void){ caller(0); }
void t1(void){ caller(1); }
void t2(void){ caller(2); }
void t3(void){ caller(3); }
void verif_final(void){
  if (verif_all_done()) verif_check(init_count == 1 && O.state == myth_once_state_completed, "C14 exactly one execution");
  verif_witness(verif_all_done());
}
