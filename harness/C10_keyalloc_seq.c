/* C10 (engine A): key allocator, sequential histories from an arbitrary valid state:
 * free list = [A, B] (A != B arbitrary cells), every other cell live. Operations: create, create, create (exhaustion),
 * delete(symbolic), create. */
#include "tls_pool.h"
static myth_tls_key_allocator_t KA;
static void dd(void *v){ (void)v; }
static int pick(long c){
  switch (c) { case 0: return 0; case 1: return 1; case 2: return 2; case 3: return 15; case 4: return 16; case 5: return 255; case 6: return 256;
               case 7: return 1022; case 8: return 1023; case 9: return -1; case 10: return 1024; default: return 511; }
}
int main(void){
  /* cells A and B are concrete (fully symbolic indices into the 16 KB table mean byte-extracts at symbolic offsets: the SAT
     instance ran out of memory); the deleted key D is a symbolic choice among {A, B, -1, 1024, INT_MIN, INT_MAX, -1024, 2048} */
#ifndef KA_A
#define KA_A 5
#endif
#ifndef KA_B
#define KA_B 1023
#endif
  int A = KA_A, B = KA_B; long Dc = VERIF_CHOICE(); int D;
  ASSUME(Dc >= 0 && Dc <= 7);
  D = Dc == 0 ? A : Dc == 1 ? B : Dc == 2 ? -1 : Dc == 3 ? myth_tls_n_keys : Dc == 4 ? (-2147483647 - 1) : Dc == 5 ? 2147483647 : Dc == 6 ? -myth_tls_n_keys : 2 * myth_tls_n_keys;
  /* all cells other than A, B and D are never read by the operations below */
  KA.free = &KA.keys[A]; KA.keys[A].next = &KA.keys[B]; KA.keys[B].next = 0;
  int x = myth_tls_key_allocator_alloc(&KA, dd);
  int y = myth_tls_key_allocator_alloc(&KA, 0);
  CHECK(x == A && y == B, "C10 keys come from the free list");
  CHECK(x != y && 0 <= x && x < myth_tls_n_keys && 0 <= y && y < myth_tls_n_keys, "C10 keys handed out are pairwise distinct and in range");
  CHECK(KA.keys[x].destructor == dd && KA.keys[y].destructor == 0, "C10 destructor registered with the key");
  int z = myth_tls_key_allocator_alloc(&KA, 0);
  CHECK(z == -1, "C10 exhaustion is reported, no key handed out twice");
  myth_tls_destructor_fun_t f = Dc == 0 ? myth_tls_key_allocator_dealloc(&KA, KA_A) : Dc == 1 ? myth_tls_key_allocator_dealloc(&KA, KA_B) : Dc == 2 ? myth_tls_key_allocator_dealloc(&KA, -1) : Dc == 3 ? myth_tls_key_allocator_dealloc(&KA, myth_tls_n_keys) : Dc == 4 ? myth_tls_key_allocator_dealloc(&KA, (-2147483647 - 1)) : Dc == 5 ? myth_tls_key_allocator_dealloc(&KA, 2147483647) : Dc == 6 ? myth_tls_key_allocator_dealloc(&KA, -myth_tls_n_keys) : myth_tls_key_allocator_dealloc(&KA, 2 * myth_tls_n_keys);
  int ok = (D >= 0 && D < myth_tls_n_keys);
  CHECK(ok || f == (myth_tls_destructor_fun_t)-1, "C10 key indices outside the valid range are rejected");
  if (ok) {
    CHECK(f != (myth_tls_destructor_fun_t)-1, "C10 deleting a live key succeeds");
    myth_tls_destructor_fun_t g = D == A ? myth_tls_key_allocator_dealloc(&KA, KA_A) : myth_tls_key_allocator_dealloc(&KA, KA_B);
    CHECK(g == (myth_tls_destructor_fun_t)-1, "C10 deleting a key that is not live is rejected");
    int w = myth_tls_key_allocator_alloc(&KA, 0);
    CHECK(w == D, "C10 a deleted key becomes available again");
    int w2 = myth_tls_key_allocator_alloc(&KA, 0);
    CHECK(w2 == -1, "C10 only the deleted key is reusable");
  }
  WITNESS();
  return 0;
}
