/* C10 (engine A): key allocator, sequential histories from an arbitrary valid state:
 * free list = [A, B] (A != B arbitrary cells), every other cell live. Operations: create, create, create (exhaustion),
 * delete(symbolic), create. */
#include "tls_pool.h"
static myth_tls_key_allocator_t KA;
static void dd(void *v){ (void)v; }
int main(void){
  int A = VERIF_CHOICE(), B = VERIF_CHOICE(), D = VERIF_CHOICE();
  ASSUME(0 <= A && A < myth_tls_n_keys && 0 <= B && B < myth_tls_n_keys && A != B);
  ASSUME(-3 <= D && D <= myth_tls_n_keys + 2);
  __CPROVER_havoc_object(&KA);
  KA.free = &KA.keys[A]; KA.keys[A].next = &KA.keys[B]; KA.keys[B].next = 0;
  if (D >= 0 && D < myth_tls_n_keys && D != A && D != B) KA.keys[D].next = (myth_tls_key_entry_t *)-1;   /* every non-free cell is live */
  int x = myth_tls_key_allocator_alloc(&KA, dd);
  int y = myth_tls_key_allocator_alloc(&KA, 0);
  CHECK(x == A && y == B, "C10 keys come from the free list");
  CHECK(x != y && 0 <= x && x < myth_tls_n_keys && 0 <= y && y < myth_tls_n_keys, "C10 keys handed out are pairwise distinct and in range");
  CHECK(KA.keys[x].destructor == dd && KA.keys[y].destructor == 0, "C10 destructor registered with the key");
  int z = myth_tls_key_allocator_alloc(&KA, 0);
  CHECK(z == -1, "C10 exhaustion is reported, no key handed out twice");
  myth_tls_destructor_fun_t f = myth_tls_key_allocator_dealloc(&KA, D);
  int ok = (D >= 0 && D < myth_tls_n_keys);
  CHECK(ok || f == (myth_tls_destructor_fun_t)-1, "C10 key indices outside the valid range are rejected");
  if (ok) {
    CHECK(f != (myth_tls_destructor_fun_t)-1, "C10 deleting a live key succeeds");
    myth_tls_destructor_fun_t g = myth_tls_key_allocator_dealloc(&KA, D);
    CHECK(g == (myth_tls_destructor_fun_t)-1, "C10 deleting a key that is not live is rejected");
    int w = myth_tls_key_allocator_alloc(&KA, 0);
    CHECK(w == D, "C10 a deleted key becomes available again");
    int w2 = myth_tls_key_allocator_alloc(&KA, 0);
    CHECK(w2 == -1, "C10 only the deleted key is reusable");
  }
  WITNESS();
  return 0;
}
