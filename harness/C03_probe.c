/* C03 probe TU: expands the four REAL context-switch macros so that their inline-asm templates and
 * constraint strings can be read from the compiler's IR (engine C, engines/asmsmt.py) */
#include "myth_context_func.h"
void cbf(void *a, void *b, void *c);
void p_swap(myth_context_t f, myth_context_t t){ myth_swap_context_i(f, t); }
void p_swapc(myth_context_t f, myth_context_t t, void *a, void *b, void *c){ myth_swap_context_withcall_i(f, t, cbf, a, b, c); }
void p_set(myth_context_t t){ myth_set_context_i(t); }
void p_setc(myth_context_t t, void *a, void *b, void *c){ myth_set_context_withcall_i(t, cbf, a, b, c); }
