/* C06: barrier, N = VN participants, ROUNDS consecutive waits */
#ifndef VN
#define VN 2
#endif
#ifndef ROUNDS
#define ROUNDS 2
#endif
#include "sync_common.h"
myth_barrier_t B;
volatile int arrived[ROUNDS]; int serial[ROUNDS]; int returned[ROUNDS];
void verif_init(void){ verif_model_init(); myth_barrier_init_body(&B, 0, VN); }
#define BROUND(k) do { \
    __sync_fetch_and_add(&arrived[k], 1); \
    int r = myth_barrier_wait_body(&B); \
    verif_check(arrived[k] == VN, "C06 nobody returns from round k before all N entered round k"); \
    verif_check(r == 0 || r == MYTH_BARRIER_SERIAL_THREAD, "C06 wait returns 0 or the serial-thread indicator"); \
    if (r == MYTH_BARRIER_SERIAL_THREAD) __sync_fetch_and_add(&serial[k], 1); \
    __sync_fetch_and_add(&returned[k], 1); \
  } while (0)
static inline void participant(int me){
  (void)me;
  BROUND(0);
#if ROUNDS > 1
  BROUND(1);
#endif
#if ROUNDS > 2
  BROUND(2);
#endif
}
void t0(void){ participant(0); }
void t1(void){ participant(1); }
void t2(void){ participant(2); }
void verif_final(void){
  if (verif_all_done()) {
    verif_check(serial[0] == 1 && returned[0] == VN, "C06 exactly one serial thread in round 0 and everybody returned");
#if ROUNDS > 1
    verif_check(serial[1] == 1 && returned[1] == VN, "C06 exactly one serial thread in round 1 and everybody returned");
#endif
#if ROUNDS > 2
    verif_check(serial[2] == 1 && returned[2] == VN, "C06 exactly one serial thread in round 2 and everybody returned");
#endif
    verif_check(B.state == 0, "C06 barrier state reset (reusable)");
  }
  verif_witness(verif_all_done());
}
