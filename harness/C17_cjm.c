/* C17 (engine A): create_join_many / create_join_various equal the sequential loop.
 * Real code: myth_create_join_various_ex_body, myth_create_join_many_ex_body, myth_create_join_various_ex_aux.
 * myth_create_ex_body / myth_join_body are replaced (--replace-calls) by "run the child to completion now" / no-op
 * (their concurrent behaviour is C01); myth_self() returns the token of the running item thread. */
#include "myth_sched_func.h"
#include "verif_a.h"
volatile int g_myth_init_state = myth_init_state_initialized; myth_globalattr_t g_attr;
myth_steal_func_t g_myth_steal_func; __thread unsigned int g_myth_random_temp; int g_sched_prof;
myth_tls_key_allocator_t g_myth_tls_key_allocator[1];
myth_running_env_t g_envs; int g_envs_sz; __thread int g_worker_rank;
#ifndef NMAX
#define NMAX 5
#endif
#define SLOTS (2 * NMAX + 2)
static long argbuf[SLOTS + 2], resbuf[SLOTS + 2], idbuf[SLOTS + 2], fnbuf[SLOTS + 2];
static struct { long guard0; myth_thread_attr_t a[SLOTS]; long guard1; } attrbuf;
static long n; static size_t arg_st, res_st, id_st, fn_st, at_st; static int many;
static int argcount[NMAX + 1]; static int fncount[NMAX + 1]; static int bad_arg, bad_attr, n_create, n_join;
/* thread ids are addresses of small tokens (an array of real 4 KB descriptors made the SAT conversion run out of memory) */
static long TOKB[NMAX + 2]; static void *TOKRES[NMAX + 2]; static int cur_tok, next_tok = 1;
myth_thread_t myth_self(void){ return (myth_thread_t)&TOKB[cur_tok]; }

static int arg_index(void *p){ long off = (char*)p - (char*)(argbuf + 1); if (off < 0 || off % (long)arg_st != 0) return -1; long i = off / (long)arg_st; return (i >= 0 && i < n) ? (int)i : -1; }
static void *item(int k, void *arg){
  int i = arg_index(arg);
  if (i < 0) bad_arg = 1; else { argcount[i]++; if (!many && k != i) bad_arg = 1; }
  fncount[k]++;
  return (void*)(0x1000L + (i < 0 ? 99 : i));
}
static void *f0(void *a){ return item(0, a); } static void *f1(void *a){ return item(1, a); } static void *f2(void *a){ return item(2, a); }
static void *f3(void *a){ return item(3, a); } static void *f4(void *a){ return item(4, a); }

/* stands for myth_create_ex_body: child-first, run to completion */
int stub_create(myth_thread_t *id, myth_thread_attr_t *attr, myth_func_t func, void *arg){
  n_create++;
  if (attr) { long off = (char*)attr - (char*)attrbuf.a; if (off < 0 || off % (long)at_st != 0 || off / (long)at_st >= n) bad_attr = 1; }
  int saved = cur_tok; int me = next_tok < NMAX + 1 ? next_tok++ : NMAX + 1;
  cur_tok = me; *id = (myth_thread_t)&TOKB[me];
  CHECK(func == myth_create_join_various_ex_aux, "C17 the helper creates threads that run its own splitting routine");
  TOKRES[me] = myth_create_join_various_ex_aux(arg);     /* direct call: no function-pointer fan-out in the query */
  cur_tok = saved;
  return 0;
}
int stub_join(myth_thread_t th, void **result){ n_join++; long k = (long *)th - TOKB; if (result) *result = (k >= 0 && k < NMAX + 2) ? TOKRES[k] : 0; return 0; }

int main(void){
  long i;
#ifdef NFIX   /* the number of items is fixed per query (it determines the shape of the splitting recursion); everything else stays symbolic */
  n = NFIX;
#else
  n = VERIF_CHOICE(); ASSUME(0 <= n && n <= NMAX);
#endif
  many = VERIF_CHOICE() & 1;
#ifdef ST_ARG     /* strides fixed per job (symbolic strides turn every slot access into a symbolic-offset byte access: no verdict in 40 min) */
  arg_st = ST_ARG; res_st = ST_RES; id_st = ST_ID; fn_st = ST_FN; at_st = ST_AT * sizeof(myth_thread_attr_t);
#else
  arg_st = (VERIF_CHOICE() & 1) ? 16 : 8; res_st = (VERIF_CHOICE() & 1) ? 16 : 8; id_st = (VERIF_CHOICE() & 1) ? 16 : 8;
  fn_st = (VERIF_CHOICE() & 1) ? 16 : 8; at_st = (VERIF_CHOICE() & 1) ? 2 * sizeof(myth_thread_attr_t) : sizeof(myth_thread_attr_t);
#endif
  int have_ids = VERIF_CHOICE() & 1, have_res = VERIF_CHOICE() & 1, have_attrs = VERIF_CHOICE() & 1;
  for (i = 0; i < SLOTS + 2; i++) { argbuf[i] = 0x11; resbuf[i] = 0x22; idbuf[i] = 0x33; fnbuf[i] = 0; }
  attrbuf.guard0 = attrbuf.guard1 = 0x44;
  myth_func_t fs[5] = { f0, f1, f2, f3, f4 };
  for (i = 0; i < NMAX; i++) if (i < n) *(myth_func_t *)((char*)(fnbuf + 1) + i * fn_st) = fs[i];
  int r;
  if (many) r = myth_create_join_many_ex_body(have_ids ? (myth_thread_t*)(idbuf + 1) : (myth_thread_t*)0, have_attrs ? &attrbuf.a[0] : (myth_thread_attr_t*)0, f0, argbuf + 1,
                                              have_res ? (void*)(resbuf + 1) : (void*)0, id_st, at_st, arg_st, res_st, n);
  else r = myth_create_join_various_ex_body(have_ids ? (myth_thread_t*)(idbuf + 1) : (myth_thread_t*)0, have_attrs ? &attrbuf.a[0] : (myth_thread_attr_t*)0, (myth_func_t*)(fnbuf + 1), argbuf + 1,
                                            have_res ? (void*)(resbuf + 1) : (void*)0, id_st, at_st, fn_st, arg_st, res_st, n);
  CHECK(r == 0, "C17 bulk create/join returns 0");
  CHECK(!bad_arg, "C17 every function is applied to args + i*arg_stride with its own function slot");
  CHECK(!bad_attr, "C17 the attribute passed to a creation is one of the caller's strided attribute slots");
  CHECK(n_create == n_join, "C17 every created thread is joined before returning");
  for (i = 0; i < NMAX; i++) {
    if (i < n) {
      CHECK(argcount[i] == 1, "C17 f_i is applied exactly once for every i in [0,n)");
      if (!many) CHECK(fncount[i] == 1, "C17 the function slot funcs + i*func_stride is used for item i");
      if (have_res) CHECK(*(long*)((char*)(resbuf + 1) + i * res_st) == 0x1000L + i, "C17 return value stored at its strided slot");
      if (have_ids) { long v = *(long*)((char*)(idbuf + 1) + i * id_st); CHECK(v != 0x33 && v != 0, "C17 thread id stored at its strided slot"); }
    } else CHECK(argcount[i] == 0, "C17 nothing is applied beyond n");
  }
  if (many) CHECK(fncount[0] == n, "C17 create_join_many applies the one function n times");
  /* memory outside the slots untouched */
  CHECK(argbuf[0] == 0x11 && resbuf[0] == 0x22 && idbuf[0] == 0x33 && attrbuf.guard0 == 0x44 && attrbuf.guard1 == 0x44, "C17 guard words before the arrays untouched");
  for (i = 0; i < SLOTS; i++) {      /* slot i (8-byte words) is a strided slot iff i is a multiple of stride/8 below n */
    long rw = (long)res_st / 8, iw = (long)id_st / 8;
    int used_r = have_res && (i % rw == 0) && (i / rw < n), used_i = have_ids && (i % iw == 0) && (i / iw < n);
    if (!used_r) CHECK(resbuf[1 + i] == 0x22, "C17 no result memory outside the strided slots is touched");
    if (!used_i) CHECK(idbuf[1 + i] == 0x33, "C17 no id memory outside the strided slots is touched");
    CHECK(argbuf[1 + i] == 0x11, "C17 the argument array is not written");
  }
  if (n == 0) CHECK(n_create == 0 && fncount[0] == 0, "C17 n = 0 does nothing");
  WITNESS();
  return 0;
}
