/* C20 (engine A): sleeping and timed waits respect their deadlines.
 * Real code: myth_nanosleep_body, myth_usleep_body, myth_sleep_body, myth_timespec_add, myth_timespec_gt,
 * myth_mutex_timedlock_body (+ real trylock), myth_timedjoin_body (+ real tryjoin), hr_gettime.
 * Environment: clock_gettime = arbitrary non-decreasing valid timespec sequence; myth_yield_ex_body replaced
 * (goto-instrument --replace-calls) by a stub in which "other threads run": they may release/take the mutex
 * or let the join target finish. */
#include "myth_sync_func.h"
#include "verif_a.h"
volatile int g_myth_init_state = myth_init_state_initialized; myth_globalattr_t g_attr;
myth_steal_func_t g_myth_steal_func; __thread unsigned int g_myth_random_temp; int g_sched_prof;
myth_tls_key_allocator_t g_myth_tls_key_allocator[1];
static struct myth_running_env EV; myth_running_env_t g_envs = &EV; int g_envs_sz = 1; __thread int g_worker_rank;

#ifndef KMAX
#define KMAX 4            /* the KMAX-th clock reading is forced past the deadline */
#endif
static int n_clock, n_yield, yields_since_clock;
static struct timespec rd[KMAX + 1];      /* readings */
static struct timespec deadline;          /* oracle deadline (set by each scenario before the call) */
static int have_deadline;
static myth_mutex_t M; static int free_seen_before_last, free_at_last;
static struct myth_thread TGT; static int fin_seen_before_last, fin_at_last;
static int scenario; static int env_locked;

static int ts_valid(const struct timespec *t){ return t->tv_nsec >= 0 && t->tv_nsec <= 999999999; }
static int ts_gt(const struct timespec *a, const struct timespec *b){
  return a->tv_sec > b->tv_sec || (a->tv_sec == b->tv_sec && a->tv_nsec > b->tv_nsec); }
static int ts_ge(const struct timespec *a, const struct timespec *b){ return !ts_gt(b, a); }

static void ref_add(const struct timespec *a, const struct timespec *b, struct timespec *c);
static struct timespec oracle_req; static int deadline_from_first;
int clock_gettime(clockid_t id, struct timespec *ts){
  (void)id;
  struct timespec t; t.tv_sec = VERIF_CHOICE(); t.tv_nsec = VERIF_CHOICE();
  ASSUME(ts_valid(&t) && t.tv_sec >= 0 && t.tv_sec < (1L << 40));
  if (n_clock > 0) ASSUME(ts_ge(&t, &rd[n_clock - 1]));
  /* sleep functions read the clock twice in a row at the start (now, then the first loop test) */
  if (n_clock > (deadline_from_first ? 1 : 0))
    CHECK(yields_since_clock >= 1, "C20 the worker is yielded to other threads between two clock readings");
  if (n_clock == 0 && deadline_from_first) { ref_add(&t, &oracle_req, &deadline); have_deadline = 1; }
  if (have_deadline && n_clock >= KMAX - 1) ASSUME(ts_gt(&t, &deadline));    /* time eventually passes */
  CHECK(n_clock < KMAX, "C20 no further clock reading after the deadline has been seen to pass");
  ASSUME(n_clock < KMAX);
  rd[n_clock++] = t; yields_since_clock = 0;
  free_seen_before_last |= free_at_last; free_at_last = !(M.state & 1);
  fin_seen_before_last |= fin_at_last;   fin_at_last = (TGT.status >= MYTH_STATUS_FREE_READY);
  *ts = t;
  return 0;
}
/* stands for myth_yield_ex_body: other threads run */
int stub_yield_ex(int opt){
  (void)opt; n_yield++; yields_since_clock++;
  if (scenario == 3) { if (VERIF_CHOICE() & 1) { M.state = (M.state & 1) ? 0 : 1; env_locked = M.state & 1; } }   /* holder unlocks / somebody locks */
  if (scenario == 4) { if (VERIF_CHOICE() & 1) TGT.status = MYTH_STATUS_FREE_READY2; }
  return 0;
}
static struct timespec stub_req; static int stub_calls, stub_rc;
int stub_nanosleep(const struct timespec *req, struct timespec *rem){ (void)rem; stub_req = *req; stub_calls++; return stub_rc; }
/* reference sum with explicit carry (no multiplication) */
static void ref_add(const struct timespec *a, const struct timespec *b, struct timespec *c){
  long ns = a->tv_nsec + b->tv_nsec; long carry = ns >= 1000000000L;
  c->tv_nsec = carry ? ns - 1000000000L : ns; c->tv_sec = a->tv_sec + b->tv_sec + carry;
}
int main(void){
  scenario = VERIF_CHOICE();
  ASSUME(scenario >= 0 && scenario <= 6);
#ifdef SCEN
  ASSUME(scenario == SCEN);
#endif
  EV.rank = 0; static struct myth_thread ME; EV.this_thread = &ME; ME.env = &EV;
  if (scenario == 0) {           /* timespec_add / timespec_gt for all valid inputs */
    struct timespec a, b, c, r;
    a.tv_sec = VERIF_CHOICE(); a.tv_nsec = VERIF_CHOICE(); b.tv_sec = VERIF_CHOICE(); b.tv_nsec = VERIF_CHOICE();
    ASSUME(ts_valid(&a) && ts_valid(&b) && a.tv_sec >= 0 && b.tv_sec >= 0 && a.tv_sec < (1L << 61) && b.tv_sec < (1L << 61));
    myth_timespec_add(&a, &b, &c); ref_add(&a, &b, &r);
    CHECK(ts_valid(&c), "C20 timespec_add result is normalised");
    CHECK(c.tv_sec == r.tv_sec && c.tv_nsec == r.tv_nsec, "C20 timespec_add equals the mathematical sum (carry)");
    CHECK(myth_timespec_gt(&a, &b) == ts_gt(&a, &b), "C20 timespec_gt is the strict order on (sec,nsec)");
    WITNESS();
  } else if (scenario == 1) {    /* nanosleep, all requests */
    struct timespec req; req.tv_sec = VERIF_CHOICE(); req.tv_nsec = VERIF_CHOICE();
    int bad = req.tv_sec < 0 || req.tv_nsec < 0 || req.tv_nsec > 999999999;
    ASSUME(req.tv_sec < (1L << 40));
    have_deadline = 0; deadline_from_first = !bad; oracle_req = req;
    int rc = myth_nanosleep_body(&req, 0);
    CHECK((rc == EINVAL) == bad, "C20 nanosleep rejects exactly the malformed durations with EINVAL");
    CHECK(rc == 0 || rc == EINVAL, "C20 nanosleep returns 0 or EINVAL");
    if (rc == 0) {
      CHECK(n_clock >= 2, "C20 nanosleep reads the clock again after computing the deadline");
      CHECK(ts_gt(&rd[n_clock - 1], &deadline), "C20 nanosleep returns 0 no earlier than the requested duration");
    } else CHECK(n_clock == 0 && n_yield == 0, "C20 a rejected request does not sleep");
    WITNESS_IF(rc == 0 && n_clock >= 3);
  } else if (scenario == 2) {    /* usleep / sleep argument conversion, all arguments */
    unsigned int u = (unsigned int)VERIF_CHOICE();
    struct timespec req; req.tv_sec = u; req.tv_nsec = 0;
    oracle_req = req; deadline_from_first = 1;
    int rc = (int)myth_sleep_body(u);
    CHECK(rc == 0, "C20 sleep accepts every argument (no spurious EINVAL)");
    CHECK(n_clock >= 2 && ts_gt(&rd[n_clock - 1], &deadline), "C20 sleep returns no earlier than the requested duration");
    WITNESS();
  } else if (scenario == 3) {    /* timed lock */
    myth_mutex_init_body(&M, 0);
    M.state = VERIF_CHOICE() & 1;                         /* held by somebody else, or free */
    int initially_free = !(M.state & 1); env_locked = M.state & 1;
    struct timespec abs; abs.tv_sec = VERIF_CHOICE(); abs.tv_nsec = VERIF_CHOICE();
    ASSUME(ts_valid(&abs) && abs.tv_sec >= 0 && abs.tv_sec < (1L << 40));
    deadline = abs; have_deadline = 1; free_at_last = 0;
    int rc = myth_mutex_timedlock_body(&M, &abs);
    CHECK(rc == 0 || rc == ETIMEDOUT, "C20 timedlock returns 0 or a timeout error");
    if (rc == 0) CHECK(M.state & 1, "C20 timedlock success means the mutex is now held");
    else {
      CHECK(n_clock >= 1 && ts_gt(&rd[n_clock - 1], &abs), "C20 timedlock times out no earlier than its absolute deadline");
      CHECK(!initially_free && !free_seen_before_last, "C20 timedlock succeeds whenever the mutex is free at one of its attempts before the deadline");
      CHECK((M.state & 1) == env_locked && (M.state >> 1) == 0, "C20/C04 a timedlock that reports a timeout has not acquired the mutex (its state is as the other threads left it)");
    }
    WITNESS_IF(rc == ETIMEDOUT && n_yield >= 2);
  } else if (scenario == 4) {    /* timed join */
    TGT.status = (VERIF_CHOICE() & 1) ? MYTH_STATUS_FREE_READY2 : MYTH_STATUS_READY;
    int initially_fin = TGT.status >= MYTH_STATUS_FREE_READY;
    static int resv; TGT.result = &resv; void *res = 0;
    struct timespec abs; abs.tv_sec = VERIF_CHOICE(); abs.tv_nsec = VERIF_CHOICE();
    ASSUME(ts_valid(&abs) && abs.tv_sec >= 0 && abs.tv_sec < (1L << 40));
    deadline = abs; have_deadline = 1; fin_at_last = 0;
    int rc = myth_timedjoin_body(&TGT, &res, &abs);
    if (rc == 0) { CHECK(TGT.status == MYTH_STATUS_FREE_READY2 , "C20 timedjoin success only when the target has finished");
                   CHECK(res == &resv, "C20 timedjoin delivers the result"); }
    else {
      CHECK(n_clock >= 1 && ts_gt(&rd[n_clock - 1], &abs), "C20 timedjoin gives up no earlier than its absolute deadline");
      CHECK(!initially_fin && !fin_seen_before_last, "C20 timedjoin succeeds whenever the target has finished at one of its attempts before the deadline");
    }
    WITNESS_IF(rc != 0 && n_yield >= 2);
  } else if (scenario == 6) {    /* usleep argument conversion kernel, every useconds_t value; nanosleep replaced by a recording stub */
    unsigned int u = (unsigned int)VERIF_CHOICE();
    long s = VERIF_CHOICE(), r = VERIF_CHOICE();
    ASSUME(s >= 0 && s <= 4294 && r >= 0 && r < 1000000 && s * 1000000L + r == (long)u);
    stub_rc = VERIF_CHOICE() & 1 ? 0 : EINVAL;
    int rc = myth_usleep_body(u);
    CHECK(stub_calls == 1 && rc == stub_rc, "C20 usleep forwards to nanosleep once and returns its result");
    CHECK(stub_req.tv_sec == s && stub_req.tv_nsec == r * 1000L, "C20 usleep converts microseconds to (sec,nsec) exactly");
    CHECK(stub_req.tv_sec >= 0 && stub_req.tv_nsec >= 0 && stub_req.tv_nsec <= 999999999, "C20 usleep never produces a malformed duration");
    WITNESS();
  } else {                       /* hr_gettime forwards the clock */
    struct timespec t; int r = hr_gettime(&t);
    CHECK(r == 0 && t.tv_sec == rd[0].tv_sec && t.tv_nsec == rd[0].tv_nsec, "C20 hr_gettime returns the clock reading");
    WITNESS();
  }
  return 0;
}
