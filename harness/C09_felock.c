/* C09: full/empty lock as a single-slot mailbox. NP producers, NC consumers, ITEMS items each. */
#ifndef NP
#define NP 1
#endif
#ifndef NC
#define NC 1
#endif
#ifndef ITEMS
#define ITEMS 2
#endif
#define VN (NP+NC)
#include "sync_common.h"
myth_felock_t FE;
volatile int slot; volatile int holder = -1; int consumed[NP*ITEMS+1+4]; int n_consumed;
void verif_init(void){ verif_model_init(); myth_felock_init_body(&FE, 0);
#ifdef SLEEPER
  FE.status = 1; verif_ctx_saved[1] = 1; myth_sleep_queue_enq_th(FE.cond[1].sleep_q, &TD1);
#endif
}
#define PROD(me, item) do { \
    myth_felock_wait_and_lock_body(&FE, 0); \
    verif_check(myth_felock_status_body(&FE) == 0, "C09 wait_and_lock(0) returns only when the status is 0"); \
    verif_check(holder == -1, "C09 lock held exclusively"); holder = me; \
    slot = (item); \
    holder = -1; \
    myth_felock_mark_and_signal_body(&FE, 1); \
  } while (0)
#define CONS(me) do { \
    myth_felock_wait_and_lock_body(&FE, 1); \
    verif_check(myth_felock_status_body(&FE) == 1, "C09 wait_and_lock(1) returns only when the status is 1"); \
    verif_check(holder == -1, "C09 lock held exclusively"); holder = me; \
    int v = slot; \
    verif_check(v >= 1 && v <= NP*ITEMS, "C09 consumed value was produced"); \
    consumed[v]++; n_consumed++; \
    slot = 0; \
    holder = -1; \
    myth_felock_mark_and_signal_body(&FE, 0); \
  } while (0)
static inline void producer(int me, int base){
  PROD(me, base + 1);
#if ITEMS > 1
  PROD(me, base + 2);
#endif
}
static inline void consumer1(int me){ CONS(me); }
static inline void consumer2(int me){ CONS(me); CONS(me); }
#ifdef SLEEPER     /* status is already t = 1 and a thread still sleeps waiting for 1 (several waiters were asleep, only one was woken):
                      mark_and_signal(1) by the current holder ("read and leave full") must let that waiter proceed */
void t0(void){ myth_felock_lock_body(&FE); verif_check(holder == -1, "C09 lock held exclusively"); holder = 0; holder = -1; myth_felock_mark_and_signal_body(&FE, 1); }
void t1(void){ verif_park(&verif_wake[1]); verif_after_resume(1);
  myth_mutex_lock_body(FE.mutex);            /* what cond_wait does after being woken */
  verif_check(myth_felock_status_body(&FE) == 1, "C09 the waiter for status 1 proceeds with status 1"); verif_check(holder == -1, "C09 lock held exclusively");
  n_consumed = 1; myth_felock_unlock_body(&FE); }
#elif defined(PLAINLOCK)   /* plain lock/unlock mixed with the status operations: T0 uses lock/unlock only, T1 the status operations */
void t0(void){ myth_felock_lock_body(&FE); verif_check(holder == -1, "C09 lock held exclusively"); holder = 0; int s = myth_felock_status_body(&FE); verif_check(s == 0 || s == 1, "C09 status is 0 or 1"); holder = -1; myth_felock_unlock_body(&FE); }
void t1(void){ PROD(1, 1); }
#elif NP == 1 && NC == 1
void t0(void){ producer(0, 0); }
#if ITEMS == 1
void t1(void){ consumer1(1); }
#else
void t1(void){ consumer2(1); }
#endif
#elif NP == 2 && NC == 1
void t0(void){ producer(0, 0); }
void t1(void){ producer(1, ITEMS); }
void t2(void){ consumer2(2); }
#elif NP == 1 && NC == 2
void t0(void){ producer(0, 0); }
void t1(void){ consumer1(1); }
void t2(void){ consumer1(2); }
#endif
void verif_final(void){
  if (verif_all_done()) {
#ifdef SLEEPER
    verif_check(n_consumed == 1 && FE.status == 1, "C09 the sleeping waiter was let through");
#elif defined(PLAINLOCK)
    verif_check(FE.status == 1 && slot == 1, "C09 the status operation published its value");
#else
    verif_check(n_consumed == NP*ITEMS, "C09 every produced item is consumed");
    verif_check(consumed[1] == 1 && consumed[NP*ITEMS] == 1, "C09 every produced item is consumed exactly once");
    verif_check(FE.status == 0, "C09 mailbox empty at the end");
#endif
  }
  verif_witness(verif_all_done());
}
