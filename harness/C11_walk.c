/* C11 (engine A), compositional: the two recursive walks that run at thread exit, one level at a time.
 * SCEN 0  leaf step of myth_tls_call_destructors_rec: arbitrary leaf, symbolic key base, symbolic destructor table
 * SCEN 1  internal step of myth_tls_call_destructors_rec at symbolic depth/base: recursive calls replaced by a recording stub
 * SCEN 2  internal/leaf step of myth_tls_tree_destroy_rec
 * SCEN 3  myth_tls_tree_fini starts both walks at (root, 0, 0, 1024)
 * By induction on the depth these steps give: every leaf slot of key k is visited exactly once with key k, for EVERY subset of
 * keys in use (the C10 tree harness shows that set() files key k under the digits of k). */
#include "myth_config.h"
#include "myth/myth.h"
#include "myth_tls.h"
/* the recursive self-calls are redirected to these recording stubs by a text patch on the preprocessed copy (engines/specs.py) */
int stub_cd_rec(myth_tls_tree_node_t *n, int depth, myth_key_t base, myth_key_t stride, myth_tls_key_allocator_t *ka);
int stub_td_rec(myth_tls_tree_t *t, myth_tls_tree_node_t *n, int depth, myth_key_t base, myth_key_t stride);
#include "tls_pool.h"
static myth_tls_key_allocator_t KA;
static int calls0, calls1, callsg; static void *val0, *val1; static int wrong0, wrong1;
static long V[16];                                  /* distinct objects the slot values point to */
static void d0(void *v){ calls0++; val0 = v; } static void d1(void *v){ calls1++; val1 = v; } static void dg(void *v){ (void)v; callsg++; }
/* recording stubs for the recursive calls */
static int n_rec; static myth_tls_tree_node_t *rec_n[5]; static int rec_depth[5], rec_base[5], rec_stride[5];
int stub_cd_rec(myth_tls_tree_node_t *n, int depth, myth_key_t base, myth_key_t stride, myth_tls_key_allocator_t *ka){
  CHECK(ka == &KA, "C11 the key table is passed down unchanged");
  if (n_rec < 5) { rec_n[n_rec] = n; rec_depth[n_rec] = depth; rec_base[n_rec] = base; rec_stride[n_rec] = stride; } n_rec++; return 1; }
static myth_tls_tree_t T[1];
int stub_td_rec(myth_tls_tree_t *t, myth_tls_tree_node_t *n, int depth, myth_key_t base, myth_key_t stride){
  CHECK(t == T, "C11 the tree is passed down unchanged");
  if (n_rec < 5) { rec_n[n_rec] = n; rec_depth[n_rec] = depth; rec_base[n_rec] = base; rec_stride[n_rec] = stride; } n_rec++; return 0; }
int main(void){
  int scen = VERIF_CHOICE();
#ifdef SCEN
  ASSUME(scen == SCEN);
#endif
#define cd myth_tls_call_destructors_rec
#define td myth_tls_tree_destroy_rec
  static myth_tls_tree_node_t N, KID0, KID1, KID2, KID3;
  myth_tls_tree_init(T); T->pre_alloc_p = T->pre_alloc_buf + myth_tls_tree_pre_alloc_sz;
  if (scen == 0) {
    int B = VERIF_CHOICE(); ASSUME(B >= 0 && B <= myth_tls_n_keys - 16 && (B & 15) == 0);
    int i0 = VERIF_CHOICE(), i1 = VERIF_CHOICE(); ASSUME(0 <= i0 && i0 < 16 && 0 <= i1 && i1 < 16 && i0 != i1);
    int has0 = VERIF_CHOICE() & 1, has1 = VERIF_CHOICE() & 1, nn0 = VERIF_CHOICE() & 1, nn1 = VERIF_CHOICE() & 1, i;
    N.type = myth_tls_tree_node_type_leaf;
    for (i = 0; i < 16; i++) { N.entries[i].value = (VERIF_CHOICE() & 1) ? (void*)&V[i] : (void*)0; KA.keys[B + i].destructor = (VERIF_CHOICE() & 1) ? dg : 0; }
    N.entries[i0].value = nn0 ? (void*)&V[i0] : (void*)0; N.entries[i1].value = nn1 ? (void*)&V[i1] : (void*)0;
    KA.keys[B + i0].destructor = has0 ? d0 : 0; KA.keys[B + i1].destructor = has1 ? d1 : 0;
    cd(&N, myth_tls_tree_depth, B, 16, &KA);
    if (has0 && nn0) CHECK(calls0 == 1 && val0 == (void*)&V[i0], "C11 destructor of a key with a non-NULL value is called exactly once with that value");
    if (has1 && nn1) CHECK(calls1 == 1 && val1 == (void*)&V[i1], "C11 destructor of a key with a non-NULL value is called exactly once with that value");
    if (!has0) CHECK(calls0 == 0, "C11 no destructor call for a key registered without one");
    CHECK(calls0 <= 1 && calls1 <= 1, "C11 no destructor is called twice");
    if (calls0 && nn0) CHECK(val0 == (void*)&V[i0], "C11 no destructor is called with another key's value");
    if (calls0 && !nn0) CHECK(val0 == 0, "C11 no destructor is called with another key's value");
    WITNESS_IF(calls0 == 1 && calls1 == 1);
  } else if (scen == 1 || scen == 2) {
    int d = VERIF_CHOICE(); ASSUME(d >= 0 && d < myth_tls_tree_depth);
    int stride = myth_tls_n_keys >> (2 * d);
    int B = VERIF_CHOICE(); ASSUME(B >= 0 && B <= myth_tls_n_keys); ASSUME(B + stride <= myth_tls_n_keys && (B & (stride - 1)) == 0);
    int p0 = VERIF_CHOICE() & 1, p1 = VERIF_CHOICE() & 1, p2 = VERIF_CHOICE() & 1, p3 = VERIF_CHOICE() & 1;
    N.type = myth_tls_tree_node_type_internal;
    N.children[0] = p0 ? &KID0 : 0; N.children[1] = p1 ? &KID1 : 0; N.children[2] = p2 ? &KID2 : 0; N.children[3] = p3 ? &KID3 : 0;
    if (scen == 1) cd(&N, d, B, stride, &KA); else td(T, &N, d, B, stride);
    CHECK(n_rec == p0 + p1 + p2 + p3, "C11 every non-empty branch is visited exactly once, empty branches are skipped (not the end of the walk)");
    int j = 0, cs = stride >> 2;
    if (p0) { CHECK(rec_n[j] == &KID0 && rec_depth[j] == d + 1 && rec_base[j] == B && rec_stride[j] == cs, "C11 branch 0 is walked with its own key range"); j++; }
    if (p1) { CHECK(rec_n[j] == &KID1 && rec_depth[j] == d + 1 && rec_base[j] == B + cs && rec_stride[j] == cs, "C11 branch 1 is walked with its own key range"); j++; }
    if (p2) { CHECK(rec_n[j] == &KID2 && rec_depth[j] == d + 1 && rec_base[j] == B + 2 * cs && rec_stride[j] == cs, "C11 branch 2 is walked with its own key range"); j++; }
    if (p3) { CHECK(rec_n[j] == &KID3 && rec_depth[j] == d + 1 && rec_base[j] == B + 3 * cs && rec_stride[j] == cs, "C11 branch 3 is walked with its own key range"); j++; }
    if (scen == 2) CHECK(free_count[14] <= 1, "C11 a visited node is released at most once");   /* whether it is released at all depends on an inter-object pointer comparison (embedded pool test), which cbmc leaves undetermined */
    WITNESS_IF(n_rec == 3);
  } else if (scen == 3) {
    int has_root = VERIF_CHOICE() & 1;
    N.type = myth_tls_tree_node_type_internal;
    T->root = has_root ? &N : 0;
    myth_tls_tree_fini(T, &KA);
    if (!has_root) CHECK(n_rec == 0, "C11 a thread that never stored walks nothing");
    else { CHECK(n_rec == 2 && rec_n[0] == &N && rec_depth[0] == 0 && rec_base[0] == 0 && rec_stride[0] == myth_tls_n_keys
                 && rec_n[1] == &N && rec_depth[1] == 0 && rec_base[1] == 0 && rec_stride[1] == myth_tls_n_keys, "C11 thread exit walks the whole key range from the root, destructors first, then teardown"); }
    WITNESS_IF(has_root);
  } else {   /* leaf step of the teardown walk */
    N.type = myth_tls_tree_node_type_leaf;
    td(T, &N, myth_tls_tree_depth, 0, 16);
    CHECK(n_rec == 0 && free_count[14] <= 1, "C11 a leaf is released at most once and not descended into");
    WITNESS();
  }
  return 0;
}
