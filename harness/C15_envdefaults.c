/* C15 (engine A): environment defaults -- MYTH_NUM_WORKERS / MYTH_DEF_STKSIZE / MYTH_DEF_GUARDSIZE with atoi as an arbitrary int */
#include "myth_init_func.h"
#include "verif_a.h"
volatile int g_myth_init_state; myth_globalattr_t g_attr;
static int set_nw, set_wn, set_stk, set_guard, v_nw, v_wn, v_stk, v_guard, ncpu;
static char s_nw[2] = "a", s_wn[2] = "b", s_stk[2] = "c", s_guard[2] = "d", s_other[2] = "0";
char *getenv(const char *name){
  if (strcmp(name, ENV_MYTH_NUM_WORKERS) == 0) return set_nw ? &s_nw[0] : (char*)0;
  if (strcmp(name, ENV_MYTH_WORKER_NUM) == 0) return set_wn ? &s_wn[0] : (char*)0;
  if (strcmp(name, ENV_MYTH_DEF_STKSIZE) == 0) return set_stk ? &s_stk[0] : (char*)0;
  if (strcmp(name, ENV_MYTH_DEF_GUARDSIZE) == 0) return set_guard ? &s_guard[0] : (char*)0;
  return 0;
}
int atoi(const char *s){ return s == s_nw ? v_nw : s == s_wn ? v_wn : s == s_stk ? v_stk : s == s_guard ? v_guard : 0; }
int myth_get_n_available_cpus(void){ return ncpu; }
int main(void){
  set_nw = VERIF_CHOICE() & 1; set_wn = VERIF_CHOICE() & 1; set_stk = VERIF_CHOICE() & 1; set_guard = VERIF_CHOICE() & 1;
  v_nw = VERIF_CHOICE(); v_wn = VERIF_CHOICE(); v_stk = VERIF_CHOICE(); v_guard = VERIF_CHOICE(); ncpu = VERIF_CHOICE();
  ASSUME(ncpu >= 1 && ncpu <= 4096);
  myth_globalattr_t a;
  myth_globalattr_init_body(&a);
  long want_nw = set_nw ? v_nw : set_wn ? v_wn : 0;
  if (want_nw <= 0) want_nw = ncpu;
  CHECK(a.n_workers == (size_t)want_nw, "C15 worker count = requested value, CPU count when unset or not positive");
  CHECK(a.n_workers >= 1, "C15 at least one worker");
  size_t want_stk = (set_stk && v_stk > 0) ? (size_t)v_stk : MYTH_DEF_STACK_SIZE;
  CHECK(a.stacksize == want_stk, "C15 default stack size: non-positive or unset MYTH_DEF_STKSIZE is ignored");
  size_t want_guard = (set_guard && v_guard > 0) ? (size_t)v_guard : MYTH_DEF_GUARD_SIZE;
  CHECK(a.guardsize == want_guard, "C15 default guard size: non-positive or unset MYTH_DEF_GUARDSIZE is ignored");
  WITNESS();
  return 0;
}
