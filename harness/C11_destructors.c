/* C11 (engine A): TSD destructors run exactly once with the right value; NK symbolic keys over all 1024 indices.
 * Real code: myth_tls_tree_set, myth_tls_tree_fini, myth_tls_call_destructors(_rec), myth_tls_tree_destroy(_rec). */
#ifndef NK
#define NK 2
#endif
#include "tls_pool.h"
static myth_tls_key_allocator_t KA;
static int calls[3]; static void *vals[3]; static int wrong;
static int a0, a1, a2;
static void d0(void *v){ calls[0]++; vals[0] = v; if (v == &a1 || v == &a2) wrong = 1; }
static void d1(void *v){ calls[1]++; vals[1] = v; if (v == &a0 || v == &a2) wrong = 1; }
static void d2(void *v){ calls[2]++; vals[2] = v; if (v == &a0 || v == &a1) wrong = 1; }
int main(void){
#if defined(GARBAGE) && !defined(VERIF_NATIVE)
  pool_garbage();                    /* thorough tier: pool nodes start with arbitrary contents (quick: fresh_node_clean covers initialisation) */
#endif
  static myth_tls_tree_t t[1];
  int k0 = VERIF_CHOICE(), k1 = VERIF_CHOICE(), k2 = VERIF_CHOICE();
  int has0 = VERIF_CHOICE() & 1, has1 = VERIF_CHOICE() & 1, has2 = VERIF_CHOICE() & 1;     /* key has a destructor */
  int nn0 = VERIF_CHOICE() & 1, nn1 = VERIF_CHOICE() & 1, nn2 = VERIF_CHOICE() & 1;        /* value is non-NULL */
  ASSUME(0 <= k0 && k0 < myth_tls_n_keys && 0 <= k1 && k1 < myth_tls_n_keys && k0 != k1);
#if NK > 2
  ASSUME(0 <= k2 && k2 < myth_tls_n_keys && k2 != k0 && k2 != k1);
#endif
#ifdef R0
  ASSUME((k0 >> 8) == R0 && (k1 >> 8) == R1);   /* case split on the root-level branches (all 16 combinations are run) */
#endif
#ifdef KLO
  ASSUME(k0 < KLO && k1 < KLO);     /* restrict to the region that is not affected by a listed known finding */
#endif
  /* every other key of the table: live or free, no destructor (the table is zero-initialised) */
  if (has0) KA.keys[k0].destructor = d0;
  if (has1) KA.keys[k1].destructor = d1;
  myth_tls_tree_init(t);
  t->pre_alloc_p = t->pre_alloc_buf + myth_tls_tree_pre_alloc_sz;   /* valid pool state: embedded pool exhausted */
  myth_tls_tree_set(t, k0, nn0 ? &a0 : 0);
  myth_tls_tree_set(t, k1, nn1 ? &a1 : 0);
#if NK > 2
  if (has2) KA.keys[k2].destructor = d2;
  myth_tls_tree_set(t, k2, nn2 ? &a2 : 0);
#else
  /* a third key with a destructor that this thread NEVER sets */
  ASSUME(0 <= k2 && k2 < myth_tls_n_keys && k2 != k0 && k2 != k1);
  if (has2) KA.keys[k2].destructor = d2;
#endif
  int nodes_used = np, leaves_used = 0;
  myth_tls_tree_fini(t, &KA);                   /* thread exit */
  if (has0 && nn0) CHECK(calls[0] == 1 && vals[0] == &a0, "C11 destructor of key 0 called exactly once with its value");
  if (has1 && nn1) CHECK(calls[1] == 1 && vals[1] == &a1, "C11 destructor of key 1 called exactly once with its value");
  if (!has0) CHECK(calls[0] == 0, "C11 no destructor call for a key registered without one");
  if (!has1) CHECK(calls[1] == 0, "C11 no destructor call for a key registered without one");
  CHECK(calls[0] <= 1 && calls[1] <= 1, "C11 no destructor is called twice");
  CHECK(!wrong, "C11 no destructor is called with another key's value");
#if NK == 2
  CHECK(calls[2] == 0 || vals[2] == 0, "C11 a key the thread never set gets no destructor call with a (stale) value");
#endif
#if NK > 2
  if (has2 && nn2) CHECK(calls[2] == 1 && vals[2] == &a2, "C11 destructor of key 2 called exactly once with its value");
  if (!has2) CHECK(calls[2] == 0, "C11 no destructor call for a key registered without one");
#endif
#ifdef LEAK
  { int i, n = 0; for (i = 0; i < 16; i++) n += free_count[i];
    CHECK(n == nodes_used + leaves_used, "C11 every heap node of the per-thread tree is released at thread exit"); }
#endif
  (void)nodes_used; (void)leaves_used; (void)k2; (void)has2; (void)nn2;
  WITNESS();
  return 0;
}
