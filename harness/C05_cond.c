/* C05: condition variables -- gate pattern.
 * MODE 0: 1 waiter + signaller(signal)       MODE 1: 1 waiter + signaller(broadcast)
 * MODE 2: 2 waiters + broadcaster            MODE 3: 2 waiters + signaller doing two signals
 * MODE 4: a sleeper is already queued on the condition variable; T0 signals while T1 (another waker in the middle of its own
 *         operation) momentarily holds the REAL spin lock of the sleep queue: the signal must still reach the sleeper */
#ifndef VN
#define VN 2
#endif
#ifndef MODE
#define MODE 0
#endif
#include "sync_common.h"
myth_mutex_t M; myth_cond_t C;
volatile int flag; volatile int holder = -1; int passed[4];

void verif_init(void){
  verif_model_init();
  myth_mutex_init_body(&M, 0);
  myth_cond_init_body(&C, 0);
#if MODE == 4
  verif_ctx_saved[2] = 1; myth_sleep_queue_enq_th(C.sleep_q, &TD2);     /* thread 2 sleeps on the condition variable */
#endif
}
static inline void waiter(int me){
  myth_mutex_lock_body(&M);
  verif_check(holder == -1, "C05 mutual exclusion of the associated mutex"); holder = me;
  while (!flag) {
    holder = -1;
    myth_cond_wait_body(&C, &M);
    verif_check(holder == -1, "C05 a resumed waiter returns from wait holding the mutex (exclusively)"); holder = me;
  }
  passed[me] = 1;
  holder = -1;
  myth_mutex_unlock_body(&M);
}
static inline void signaller(int me){
  myth_mutex_lock_body(&M);
  verif_check(holder == -1, "C05 mutual exclusion of the associated mutex"); holder = me;
  flag = 1;
#if MODE == 0
  myth_cond_signal_body(&C);
#elif MODE == 1 || MODE == 2
  myth_cond_broadcast_body(&C);
#else
  myth_cond_signal_body(&C);
  myth_cond_signal_body(&C);
#endif
  holder = -1;
  myth_mutex_unlock_body(&M);
}
#if MODE == 4
void t0(void){ myth_cond_signal_body(&C); }
void t1(void){ myth_spin_lock_body(C.sleep_q->ilock); myth_spin_unlock_body(C.sleep_q->ilock); }
void t2(void){ verif_park(&verif_wake[2]); verif_after_resume(2); passed[2] = 1; }
#elif VN == 2
void t0(void){ waiter(0); }
void t1(void){ signaller(1); }
#else
void t0(void){ waiter(0); }
void t1(void){ waiter(1); }
void t2(void){ signaller(2); }
#endif
void verif_final(void){
  /* a missed signal/broadcast is exactly a deadlock here (reported by the scheduler verdict) */
  if (verif_all_done()) {
#if MODE != 4
    verif_check(M.state == 0 && M.sleep_q->head == 0, "C05 mutex free and no sleeper at the end");
#endif
    verif_check(C.sleep_q->head == 0, "C05 nobody left on the condition variable");
#if MODE == 4
    verif_check(passed[2] == 1, "C05 signal resumes a thread blocked at that moment");
#else
    verif_check(passed[0] == 1, "C05 waiter passed the gate");
#endif
  }
  verif_witness(verif_all_done());
}
