/* C10 / C11 (engine A): a freshly allocated tree node is clean whatever the memory held before (recycled descriptor pool or
 * malloc'd chunk): all 16 leaf slots NULL / all 4 branches NULL.  Runs on the REAL node type (no struct-hack / union patch),
 * checked at byte level, so mistakes in how much of a leaf is cleared (loop bound, sizeof) are visible. */
#include "myth_tls_func.h"
#include "verif_a.h"
volatile int g_myth_init_state = myth_init_state_initialized; myth_globalattr_t g_attr;
__thread unsigned int g_myth_random_temp; myth_running_env_t g_envs; int g_envs_sz; __thread int g_worker_rank;
void *real_malloc(size_t s){ void *p = malloc(s); ASSUME(p != 0); return p; }      /* contents arbitrary */
void real_free(void *p){ (void)p; }
void *real_realloc(void *p, size_t s){ (void)p; (void)s; return 0; }
int main(void){
  static myth_tls_tree_t T[1];
  __CPROVER_havoc_object(T);                        /* the descriptor (with its embedded node pool) is recycled, not cleared */
  myth_tls_tree_init(T);
  int from_heap = VERIF_CHOICE() & 1;
  if (from_heap) T->pre_alloc_p = T->pre_alloc_buf + myth_tls_tree_pre_alloc_sz;      /* embedded pool exhausted -> general allocator */
  int leaf = VERIF_CHOICE() & 1, i;
  if (leaf) {
    myth_tls_tree_node_t *n = myth_tls_tree_node_alloc_leaf(T);
    CHECK(n->type == myth_tls_tree_node_type_leaf, "C10 a fresh leaf is tagged as a leaf");
    for (i = 0; i < myth_tls_tree_node_n_entries_in_leaf; i++) {
      void **slot = (void **)((char *)n + __builtin_offsetof(myth_tls_tree_node_t, entries) + sizeof(myth_tls_entry_t) * i);
      CHECK(*slot == 0, "C10/C11 every slot of a fresh leaf is NULL (a thread that never stored reads NULL; no destructor sees a stale value)");
    }
  } else {
    myth_tls_tree_node_t *n = myth_tls_tree_node_alloc_node(T);
    CHECK(n->type == myth_tls_tree_node_type_internal, "C10 a fresh internal node is tagged as internal");
    for (i = 0; i < myth_tls_tree_node_n_children; i++) CHECK(n->children[i] == 0, "C10 every branch of a fresh internal node is empty");
  }
  WITNESS_IF(leaf && from_heap);
  return 0;
}
