/* C10 (engine B): concurrent key creation / deletion on the REAL lock-free key free list (preempt=all).
 * Free list = [A, B, C] initially.  T0: create, (create).  T1: create, create, delete(first), (create).
 * Oracle: a key is never live in two holders at once. */
#ifndef MODE
#define MODE 0
#endif
#include "myth_tls_func.h"
void verif_check(int c, const char *msg); void verif_witness(int c); int verif_all_done(void);
volatile int g_myth_init_state = myth_init_state_initialized; myth_globalattr_t g_attr;
__thread unsigned int g_myth_random_temp; myth_running_env_t g_envs; int g_envs_sz; __thread int g_worker_rank;
myth_tls_key_allocator_t KA;
volatile int owner[myth_tls_n_keys];
#define KA_A 1
#define KA_B 5
#define KA_C 9
static inline void hold(int k, int me){
  if (k >= 0) { verif_check(k < myth_tls_n_keys, "C10 key in range");
    int prev = __sync_lock_test_and_set(&owner[k], me + 1);
    verif_check(prev == 0, "C10 keys handed out by key creation are pairwise distinct while live, also under concurrent create/delete"); }
}
static inline void release(int k){ owner[k] = 0; }
void verif_init(void){
  int i;
  for (i = 0; i < myth_tls_n_keys; i++) KA.keys[i].next = (myth_tls_key_entry_t *)-1;    /* all other cells live */
  KA.free = &KA.keys[KA_A]; KA.keys[KA_A].next = &KA.keys[KA_B]; KA.keys[KA_B].next = &KA.keys[KA_C]; KA.keys[KA_C].next = 0;
}
void t0(void){
  int k = myth_tls_key_allocator_alloc(&KA, 0); hold(k, 0);
#if MODE >= 1
  int k2 = myth_tls_key_allocator_alloc(&KA, 0); hold(k2, 0);
#endif
}
void t1(void){
  int a = myth_tls_key_allocator_alloc(&KA, 0); hold(a, 1);
  int b = myth_tls_key_allocator_alloc(&KA, 0); hold(b, 1);
  if (a >= 0) { release(a); myth_tls_key_allocator_dealloc(&KA, a); }
#if MODE >= 1
  int c = myth_tls_key_allocator_alloc(&KA, 0); hold(c, 1);
#endif
  (void)b;
}
void verif_final(void){ verif_witness(verif_all_done()); }
