/* C10 (engine A): thread-specific data store: set/get over all key indices incl. out of range, privacy between trees */
#ifndef NK
#define NK 2
#endif
#include "tls_pool.h"
static int a0, a1, a2, b0;
int main(void){
#if defined(GARBAGE) && !defined(VERIF_NATIVE)
  pool_garbage();                    /* thorough tier: pool nodes start with arbitrary contents (quick: fresh_node_clean covers initialisation) */
#endif
  static myth_tls_tree_t t[1], other[1];
  int k0 = VERIF_CHOICE(), k1 = VERIF_CHOICE(), k2 = VERIF_CHOICE(), q = VERIF_CHOICE();
  ASSUME(-2 <= k0 && k0 <= myth_tls_n_keys + 1 && -2 <= k1 && k1 <= myth_tls_n_keys + 1 && -2 <= k2 && k2 <= myth_tls_n_keys + 1);
  ASSUME(-2 <= q && q <= myth_tls_n_keys + 1);
  myth_tls_tree_init(t); myth_tls_tree_init(other);
  t->pre_alloc_p = t->pre_alloc_buf + myth_tls_tree_pre_alloc_sz;
  other->pre_alloc_p = other->pre_alloc_buf + myth_tls_tree_pre_alloc_sz;
  CHECK(myth_tls_tree_get(t, q) == 0, "C10 a thread that never stored reads NULL");
  int valid0 = 0 <= k0 && k0 < myth_tls_n_keys, valid1 = 0 <= k1 && k1 < myth_tls_n_keys, valid2 = 0 <= k2 && k2 < myth_tls_n_keys;
  int r0 = myth_tls_tree_set(t, k0, &a0);
  int r1 = myth_tls_tree_set(t, k1, &a1);
  CHECK((r0 == 0) == valid0 && (r1 == 0) == valid1 && (r0 == 0 || r0 == EINVAL) && (r1 == 0 || r1 == EINVAL), "C10 set rejects exactly the out-of-range keys");
  void *m0 = valid0 ? &a0 : 0, *m1 = valid1 ? &a1 : 0;
#if NK > 2
  int r2 = myth_tls_tree_set(t, k2, &a2);
  CHECK((r2 == 0) == valid2, "C10 set rejects exactly the out-of-range keys");
  void *m2 = valid2 ? &a2 : 0;
#endif
  /* reference: association list, last store wins */
  void *expect = 0;
  if (q == k0) expect = m0;
  if (q == k1) expect = m1;
#if NK > 2
  if (q == k2) expect = m2;
#endif
  if (q < 0 || q >= myth_tls_n_keys) expect = 0;
  CHECK(myth_tls_tree_get(t, q) == expect, "C10 get returns the last value stored under that key, NULL for unset or out-of-range keys");
  CHECK(myth_tls_tree_get(other, q) == 0, "C10 a value is never visible through another thread's store");
  /* overwrite */
  if (valid0) { myth_tls_tree_set(t, k0, &b0); CHECK(myth_tls_tree_get(t, k0) == &b0, "C10 a later store replaces the value");
                if (k1 != k0 && valid1) CHECK(myth_tls_tree_get(t, k1) == m1, "C10 a store under one key does not affect another key"); }
  (void)valid2;
  WITNESS();
  return 0;
}
