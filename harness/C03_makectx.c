/* C03 (engine A): initial stack pointer of a new thread, both entry styles, every stack-top address */
#include "myth_context_func.h"
#include "verif_a.h"
static void entry(void){ }
int main(void){
  unsigned long top = (unsigned long)VERIF_CHOICE();     /* value returned by the stack allocator (any address in a 1 MB window) */
  static unsigned long blk[512 / 8];                       /* the stack block; its end is 16 bytes above 'top' as in get_new_myth_thread_struct_stack */
  unsigned long off = (unsigned long)VERIF_CHOICE();
  ASSUME(off >= 64 && off <= sizeof(blk) - 16);
  char *stk = (char *)blk + off;
  myth_context c1, c2;
  myth_make_context_empty(&c1, stk, 0);
  CHECK((c1.rsp & 15) == 0, "C03 a fresh context entered by call-on-switch has a 16-byte aligned stack pointer");
  CHECK(c1.rsp <= (unsigned long)stk && (unsigned long)stk - c1.rsp < 16, "C03 the fresh stack pointer lies inside the stack block, at its top");
  myth_make_context_voidcall(&c2, entry, stk, 0);
  CHECK((c2.rsp & 15) == 0 && c2.rsp + 8 <= (unsigned long)stk + 7, "C03 a parent-first context: aligned slot below the top");
  CHECK(*(unsigned long *)c2.rsp == (unsigned long)entry, "C03 the entry function address is what the switch pops");
  /* after 'pop; jmp' the entry function sees rsp = c2.rsp + 8, i.e. 8 mod 16 as after a call */
  CHECK(((c2.rsp + 8) & 15) == 8, "C03 the entry function of a parent-first thread sees the ABI stack alignment");
  CHECK(c2.rsp >= (unsigned long)blk, "C03 the return-address slot is inside the stack block");
  (void)top;
  WITNESS();
  return 0;
}
