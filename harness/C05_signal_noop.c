/* C05 (sequential part, engine A style but through the same pipeline): a signal / broadcast with no waiter has no effect */
#define VN 2
#include "sync_common.h"
myth_mutex_t M; myth_cond_t C;
void verif_init(void){ verif_model_init(); myth_mutex_init_body(&M, 0); myth_cond_init_body(&C, 0); }
void t0(void){
  myth_cond_signal_body(&C);
  verif_check(C.sleep_q->head == 0 && C.sleep_q->tail == 0, "C05 signal with no waiter leaves the condition variable unchanged");
  myth_cond_broadcast_body(&C);
  verif_check(C.sleep_q->head == 0 && C.sleep_q->tail == 0, "C05 broadcast with no waiter leaves the condition variable unchanged");
  verif_check(!verif_wake[0] && !verif_wake[1], "C05 signal with no waiter resumes nobody");
}
void t1(void){ }
void verif_final(void){ verif_witness(verif_all_done()); }
