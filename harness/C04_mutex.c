/* C04: mutual exclusion, no lost wake-up, non-blocking trylock -- real myth_sync_func.h
 * MODE 0: lock/unlock x VN lockers        MODE 1: T0 lock/unlock, T1 trylock(/unlock)
 * MODE 2: T0 holds forever, T1 locks (must end parked)   MODE 3: each locker acquires twice */
#ifndef VN
#define VN 2
#endif
#ifndef MODE
#define MODE 0
#endif
#include "verif_model.h"
#include "myth_sync_func.h"
#include "verif_model_impl.h"
int verif_blocked(int t); int verif_stuck(void);

myth_mutex_t M;
volatile int in_cs; int acquired[4]; volatile int held_ghost; int try_rc = -1; int saw_held;

void verif_init(void){
  verif_model_init();
  myth_mutex_init_body(&M, 0);
}
static inline void cs_body(int me){
  in_cs++; verif_check(in_cs == 1, "C04 mutual exclusion: two threads inside the critical section");
  acquired[me]++;
  in_cs--;
}
static inline void locker(int me){
  myth_mutex_lock_body(&M);
  cs_body(me);
  myth_mutex_unlock_body(&M);
#if MODE == 3
  myth_mutex_lock_body(&M);
  cs_body(me);
  myth_mutex_unlock_body(&M);
#endif
}
#if MODE == 1
volatile int lock_started, unlock_finished;
void t0(void){ lock_started = 1; myth_mutex_lock_body(&M); cs_body(0); myth_mutex_unlock_body(&M); unlock_finished = 1; }
void t1(void){
  /* EBUSY is justified only if the other thread's lock..unlock window overlaps the trylock call */
  int f0 = unlock_finished;
  try_rc = myth_mutex_trylock_body(&M);
  int s1 = lock_started;
  verif_check(try_rc == 0 || try_rc == EBUSY, "C04 trylock returns 0 or EBUSY");
  verif_check(try_rc != EBUSY || (s1 && !f0), "C04 trylock fails only if the mutex was held at some instant during the call");
  verif_check(!verif_blocked(1), "C04 trylock never blocks");
  if (try_rc == 0) { cs_body(1); myth_mutex_unlock_body(&M); }
}
#elif MODE == 2
void t0(void){ myth_mutex_lock_body(&M); acquired[0]++; }
void t1(void){ myth_mutex_lock_body(&M); acquired[1]++; myth_mutex_unlock_body(&M); }
#else
void t0(void){ locker(0); }
void t1(void){ locker(1); }
void t2(void){ locker(2); }
#endif
void verif_final(void){
#if MODE == 2
  /* a locker that cannot get the mutex ends PARKED (does not occupy a worker), never spinning */
  if (verif_done(0) && acquired[0] == 1 && !verif_done(1)) {
    verif_check(acquired[1] == 0, "C04 mutual exclusion");
  }
  if (verif_done(0) && !verif_done(1) && verif_stuck())
    verif_check(verif_blocked(1), "C04 a thread blocked on a mutex is parked, it does not occupy a worker by spinning");
  verif_witness(verif_done(0) && !verif_done(1) && verif_blocked(1));
#else
  if (verif_all_done()) {
    verif_check(in_cs == 0, "C04 occupancy is zero at the end");
    verif_check(M.state == 0, "C04 mutex state word is 0 when every locker has finished");
    verif_check(M.sleep_q->head == 0, "C04 no thread left in the sleep queue");
#if MODE == 0
    verif_check(acquired[0] == 1 && acquired[1] == 1, "C04 every lock call returned exactly once");
#elif MODE == 3
    verif_check(acquired[0] == 2 && acquired[1] == 2, "C04 every lock call returned exactly once");
#endif
  }
  verif_witness(verif_all_done());
#endif
}
