/* C15 (engine B, rich worker model): finalisation called while the main thread runs on another worker.
 * myth_fini_body -> myth_startpoint_exit_ex_body(0) must bring the calling (main) thread back to worker 0 before it raises
 * the workers' exit flags and tears worker 0 down.  The real migration loop and its switch callback myth_startpoint_exit_ex_1
 * run against the worker model: after the hand-over to worker 0's run queue the thread is picked up by ANY idle worker
 * (solver's choice: the owner pops it, or another worker steals it again), any number of times within R rounds.
 * myth_notify_workers_exit / myth_cleanup_worker are redirected (IR level) to recording wrappers: what they do to the OS
 * threads is outside this harness. */
#define VN 2
#define VERIF_RICH 1
#define VERIF_STEAL_ANY 1
#include "verif_model.h"
#include "myth_sched_func.h"
#include "myth_sync_func.h"
#include "verif_model_impl.h"
int verif_blocked(int t); int verif_stuck(void); void verif_assume(int c);
volatile int g_myth_init_state = myth_init_state_initialized; myth_globalattr_t g_attr;
myth_steal_func_t g_myth_steal_func; __thread unsigned int g_myth_random_temp; int g_sched_prof;
myth_tls_key_allocator_t g_myth_tls_key_allocator[1];
static myth_freelist_t *FLp[4]; myth_freelist_t **g_myth_freelist = FLp;
volatile int notified, cleaned, start_worker;
void verif_wrap_myth_notify_workers_exit(void){
  verif_check(verif_env_of[0] == 0 && TD0.env == &EV0 && EV0.this_thread == &TD0,
              "C15 finalisation raises the exit flags only when the main thread is back on worker 0");
  notified++;
}
void verif_wrap_myth_cleanup_worker(int rank){
  verif_check(rank == 0 && notified == 1, "C15 worker 0 is torn down once, after the exit flags were raised");
  verif_check(verif_env_of[0] == 0, "C15 worker 0 is torn down by the thread running on it");
  cleaned++;
}
void verif_init(void){
  verif_model_init();
  g_attr.initialized = 1; g_attr.n_workers = VN; g_envs = &EV0;
  start_worker = (int)(nondet_long() & 1);
  if (start_worker == 1) {       /* the main thread has migrated: it currently runs on worker 1, worker 0 is idle */
    EV0.this_thread = 0; verif_env_busy[0] = 0;
    EV1.this_thread = &TD0; TD0.env = &EV1; verif_env_of[0] = 1; verif_env_busy[1] = 1;
  }
}
void t0(void){ myth_startpoint_exit_ex_body(0); }
void verif_final(void){
  if (verif_all_done()) verif_check(notified == 1 && cleaned == 1, "C15 finalisation completes exactly once");
  verif_witness(verif_all_done() && start_worker == 1);
}
