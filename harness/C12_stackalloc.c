/* C12 (engine A): stack blocks of any custom size (1 byte .. 2^30-4096) and of the default size:
 * the stack pointer and the size word lie inside the block obtained from the allocator, release recomputes the
 * block start exactly and files it under the size class a later allocation of that size pops; two live stacks
 * never share a block.  Real code: get_new_myth_thread_struct_stack, free_myth_thread_struct_stack,
 * myth_flmalloc, myth_flfree, MYTH_MALLOC_SIZE_TO_INDEX, myth_freelist_push/pop. */
#include "myth_sched_func.h"
#include "verif_a.h"
volatile int g_myth_init_state = myth_init_state_initialized; myth_globalattr_t g_attr;
myth_steal_func_t g_myth_steal_func; __thread unsigned int g_myth_random_temp; int g_sched_prof;
myth_tls_key_allocator_t g_myth_tls_key_allocator[1];
static struct myth_running_env EV; myth_running_env_t g_envs = &EV; int g_envs_sz = 1; __thread int g_worker_rank;
static myth_freelist_t FL[FREE_LIST_NUM]; static myth_freelist_t *FLP[1] = { FL }; myth_freelist_t **g_myth_freelist = FLP;
static char *blk[4]; static size_t blksz[4]; static int nblk;
void *mmap(void *addr, size_t length, int prot, int flags, int fd, off_t offset){
  (void)addr; (void)prot; (void)flags; (void)fd; (void)offset;
  char *p = malloc(length);
  ASSUME(p != 0);
  ASSUME(((unsigned long)p & 4095) == 0);          /* mmap returns page-aligned memory */
  CHECK(nblk < 4, "VERIF harness expects at most 4 mmap calls");
  if (nblk < 4) { blk[nblk] = p; blksz[nblk] = length; nblk++; }
  return p;
}
static int inside(int b, void *q, size_t n){ return (char*)q >= blk[b] && (char*)q + n <= blk[b] + blksz[b]; }
int main(void){
  EV.rank = 0;
  int scen = VERIF_CHOICE();
#ifdef SCEN
  ASSUME(scen == SCEN);
#endif
  if (scen == 0) {            /* custom size: allocate, release, allocate again */
    size_t sz = VERIF_CHOICE();
    ASSUME(sz >= 1 && sz <= (1UL << 30) - 4096);
    size_t rounded = (sz + 0xFFF) & ~(size_t)0xFFF;
    void *stk = get_new_myth_thread_struct_stack(&EV, sz);
    CHECK(nblk == 1 && blksz[0] >= rounded, "C12 the block obtained for a custom stack is at least the requested size");
    CHECK(inside(0, stk, 16), "C12 the stack pointer and the size word lie inside the block");
    CHECK((char*)stk + 16 == blk[0] + rounded, "C12 the stack occupies the top of the requested region");
    CHECK(*(uintptr_t*)((char*)stk + 8) == rounded, "C12 size word records the rounded size");
    static struct myth_thread TH; TH.stack = stk;
    free_myth_thread_struct_stack(&EV, &TH);
    int idx = 32 - __builtin_clz((unsigned)(rounded - 1));
    CHECK(idx < FREE_LIST_NUM && (1UL << idx) >= rounded, "C12 size class index is in range and large enough");
    CHECK(FL[idx].head == (void*)blk[0], "C12 release recomputes the block start exactly and files it under the size class of its size");
    { int j, others = 0; for (j = 0; j < FREE_LIST_NUM; j++) if (j != idx && FL[j].head) others++; CHECK(others == 0, "C12 the block is released exactly once (on one list)"); }
    /* a later allocation of any size of the same class reuses exactly this block and fits in it */
    size_t sz2 = VERIF_CHOICE(); ASSUME(sz2 >= 1 && sz2 <= (1UL << 30) - 4096);
    size_t rounded2 = (sz2 + 0xFFF) & ~(size_t)0xFFF;
    int idx2 = 32 - __builtin_clz((unsigned)(rounded2 - 1));
    void *stk2 = get_new_myth_thread_struct_stack(&EV, sz2);
    if (idx2 == idx) { CHECK(nblk == 1 && inside(0, stk2, 16) && (char*)stk2 + 16 - rounded2 >= blk[0], "C12 a recycled block is large enough for the new stack"); }
    else CHECK(nblk == 2 && inside(1, stk2, 16), "C12 a different size class never reuses the block");
    WITNESS_IF(idx2 == idx && sz2 != sz);
  } else if (scen == 1) {     /* two simultaneously live custom stacks never overlap */
    size_t s1 = VERIF_CHOICE(), s2 = VERIF_CHOICE();
    ASSUME(s1 >= 1 && s1 <= (1UL << 30) - 4096 && s2 >= 1 && s2 <= (1UL << 30) - 4096);
    void *a = get_new_myth_thread_struct_stack(&EV, s1);
    void *b = get_new_myth_thread_struct_stack(&EV, s2);
    CHECK(nblk == 2 && inside(0, a, 16) && inside(1, b, 16), "C12 stacks of simultaneously live threads come from distinct blocks");
    WITNESS();
  } else if (scen == 2) {     /* default size */
    g_attr.stacksize = VERIF_CHOICE();
    ASSUME(g_attr.stacksize >= 4096 && g_attr.stacksize <= (1UL << 30) && (g_attr.stacksize & 4095) == 0);
    void *a = get_new_myth_thread_struct_stack(&EV, 0);
    void *b = get_new_myth_thread_struct_stack(&EV, 0);
    CHECK(nblk == 2 && inside(0, a, 16) && inside(1, b, 16) && a != b, "C12 two live default stacks are distinct blocks");
    CHECK((char*)a + 16 == blk[0] + g_attr.stacksize && *(uintptr_t*)((char*)a + 8) == 0, "C12 default stack: top of block, size word 0");
    static struct myth_thread TA, TB; TA.stack = a; TB.stack = b;
    free_myth_thread_struct_stack(&EV, &TA);
    CHECK(EV.freelist_stack.head == a, "C12 a default stack is released to the per-worker stack list");
    void *c = get_new_myth_thread_struct_stack(&EV, 0);
    CHECK(c == a && nblk == 2, "C12 a released default stack is recycled, no new mapping");
    void *d = get_new_myth_thread_struct_stack(&EV, 0);
    CHECK(d != b && d != c && nblk == 3, "C12 a stack still in use is never handed out again");
    (void)TB;
    WITNESS();
  } else {                    /* descriptors: allocate, release, recycle */
    myth_thread_t t1 = get_new_myth_thread_struct_desc(&EV);
    myth_thread_t t2 = get_new_myth_thread_struct_desc(&EV);
    CHECK(t1 != t2 && nblk == 2 && inside(0, t1, sizeof(struct myth_thread)) && inside(1, t2, sizeof(struct myth_thread)), "C12 live records are distinct and inside their blocks");
    free_myth_thread_struct_desc(&EV, t1);
    myth_thread_t t3 = get_new_myth_thread_struct_desc(&EV);
    CHECK(t3 == t1 && nblk == 2, "C12 a released record is recycled, no new mapping");
    myth_thread_t t4 = get_new_myth_thread_struct_desc(&EV);
    CHECK(t4 != t2 && t4 != t3, "C12 a record still in use is never handed out again");
    WITNESS();
  }
  return 0;
}
