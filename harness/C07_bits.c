/* C07 (engine A): bit-packing of the join-counter state word for every N in [0, 2^62) */
#include "myth_sync_func.h"
#include "verif_a.h"
volatile int g_myth_init_state; myth_globalattr_t g_attr;
int main(void){
  long n = VERIF_CHOICE();
  ASSUME(0 <= n && n < (1L << 62));
  static myth_join_counter_t jc[1];
  myth_join_counter_init_body(jc, 0, n);          /* real calc_bits, unwinding 65 */
  int b = jc->n_threads_bits; long mask = jc->state_mask;
  CHECK(b >= 0 && b <= 62, "C07 field width fits the word");
  CHECK((n & mask) == n && mask == (1L << b) - 1, "C07 low field can represent N");
  CHECK(jc->state == 0 && jc->n_threads == n, "C07 initial state");
  /* arbitrary reachable packed word: decs <= N, waiters small enough not to overflow the word */
  long decs = VERIF_CHOICE(), w = VERIF_CHOICE();
  ASSUME(0 <= decs && decs <= n);
  ASSUME(0 <= w && w < (1L << (62 - b)));
  long s = (w << b) | decs;
  /* the waiter announcement (real expression of myth_join_counter_wait_body) */
  long new_s = s + (1L << jc->n_threads_bits);
  CHECK((new_s & mask) == decs, "C07 announcing a waiter does not disturb the decrement field");
  CHECK((new_s >> b) == w + 1, "C07 announcing a waiter increments the waiter field by one");
  if (decs < n) {
    long d = s + 1;                                  /* the decrement CAS value */
    CHECK((d & mask) == decs + 1, "C07 a decrement increments the low field by one");
    CHECK((d >> b) == w, "C07 a decrement does not disturb the waiter field");
  }
  /* wait's early-return test is exact */
  CHECK(((s & jc->state_mask) == jc->n_threads) == (decs == n), "C07 wait returns immediately exactly when N decrements happened");
  WITNESS();
  return 0;
}
