/* C06 / C07 (engine A): the release step of the last arriver, for EVERY number n of sleepers up to NMAX:
 * myth_wake_many_from_stack (barrier) and myth_wake_many_from_queue (join counter) must collect all n sleepers first and only
 * then publish any of them (otherwise a released participant can race ahead into the next round and be collected in place of
 * a sleeper of this round).  Sleeper-stack pop / queue deq and run-queue push are recording stubs (the spin on a late sleeper is covered by the engine-B barrier jobs). */
#ifndef NMAX
#define NMAX 64
#endif
#include "myth_sync_func.h"
#include "verif_a.h"
volatile int g_myth_init_state = myth_init_state_initialized; myth_globalattr_t g_attr; myth_steal_func_t g_myth_steal_func;
__thread unsigned int g_myth_random_temp; int g_sched_prof; myth_tls_key_allocator_t g_myth_tls_key_allocator[1];
static struct myth_running_env EV; myth_running_env_t g_envs = &EV; int g_envs_sz = 1; __thread int g_worker_rank;
#ifndef ALIAS
#define ALIAS 0
#endif
static struct myth_thread POOL[ALIAS ? 2 : NMAX + 1];      /* needs --max-field-sensitivity-array-size > NMAX (else 14 GB at n = 64) */
static long n, npop, npush, nnull; static int early_push, bad_push;
#if ALIAS   /* order-only variant for large n: every collected sleeper is the same descriptor (the code under test never compares sleepers, it only chains
             * them through ->next, so a self-loop chain of length n is traversed exactly like n distinct ones); identity/once-each is decided by the ALIAS=0 variant */
#define SLOT(k) 0
#else
#define SLOT(k) (k)
#endif
myth_sleep_queue_item_t stub_pop(myth_sleep_stack_t *s){ (void)s;
  long k = npop < NMAX ? npop : NMAX; npop++; return (myth_sleep_queue_item_t)&POOL[SLOT(k)]; }
myth_sleep_queue_item_t stub_deq(myth_sleep_queue_t *q){ (void)q;
  long k = npop < NMAX ? npop : NMAX; npop++; return (myth_sleep_queue_item_t)&POOL[SLOT(k)]; }
void stub_push(myth_thread_queue_t q, struct myth_thread *th){
  if (q != &EV.runnable_q) bad_push = 1;
  if (npop < n) early_push = 1;                                         /* published before all n were collected */
  if (th != &POOL[SLOT(npush < NMAX ? npush : NMAX)]) bad_push = 1;           /* every collected sleeper is published exactly once, in order */
  npush++; }
int main(void){
  EV.rank = 0;
  n = VERIF_CHOICE(); ASSUME(0 <= n && n <= NMAX);
  static myth_sleep_stack_t S[1]; static myth_sleep_queue_t Q[1];
#if KIND == 0
  int r = myth_wake_many_from_stack(S, 0, 0, n);
#else
  int r = myth_wake_many_from_queue(Q, 0, 0, n);
#endif
  CHECK(r == n, "C06 the release step reports n");
  CHECK(npop == n, "C06 exactly the n sleepers of this round are collected");
  CHECK(!early_push, "C06 no sleeper is published before all n have been collected (no participant can re-enter the barrier while the collection is in progress)");
  CHECK(npush == n && !bad_push, "C06 every collected sleeper is published exactly once on the releasing worker's run queue");
  WITNESS_IF(n == NMAX);
  return 0;
}
