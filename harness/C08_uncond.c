/* C08: uncondition variable, documented protocol: the waiter announces itself (atomically) before calling
 * wait; the signaller signals only after seeing the announcement.  RV rendezvous on the same variable. */
#define VN 2
#ifndef RV
#define RV 2
#endif
#include "sync_common.h"
myth_uncond_t U;
volatile int announce[RV]; volatile int sig_begun[RV]; volatile int sig_done[RV]; int resumed_cnt[RV];
void verif_init(void){ verif_model_init(); myth_uncond_init_body(&U); }
#define WROUND(k) do { \
    __sync_fetch_and_add(&announce[k], 1); \
    myth_uncond_wait_body(&U); \
    verif_check(sig_begun[k], "C08 the waiter does not resume without a signal"); \
    resumed_cnt[k]++; \
  } while (0)
#define SROUND(k) do { \
    while (!announce[k]) { } \
    sig_begun[k] = 1; \
    myth_uncond_signal_body(&U); \
    verif_check(verif_nrun[0] == (k) + 1, "C08 signal returns only after the waiter has been handed back to the scheduler (exactly once)"); \
    sig_done[k] = 1; \
  } while (0)
void t0(void){   /* waiter */
  WROUND(0);
#if RV > 1
  WROUND(1);
#endif
#if RV > 2
  WROUND(2);
#endif
}
void t1(void){   /* signaller */
  SROUND(0);
#if RV > 1
  SROUND(1);
#endif
#if RV > 2
  SROUND(2);
#endif
}
void verif_final(void){
  if (verif_all_done()) {
    verif_check(resumed_cnt[0] == 1 && resumed_cnt[RV-1] == 1, "C08 the waiter is resumed exactly once per rendezvous");
    verif_check(U.th == 0, "C08 no stale waiter left in the variable");
  }
  verif_witness(verif_all_done());
}
