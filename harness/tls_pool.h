/* typed node pools standing for real_malloc in the TLS-tree harnesses (DESIGN 2.3: byte-backed
 * memory makes cbmc fall over; allocation stubs hand out typed static objects selected by size) */
#include "myth_tls_func.h"
#include "verif_a.h"
/* with the struct-hack patch of engines/vlib.py both node kinds have the same (leaf) size: one typed pool */
#ifndef NPOOL
#define NPOOL 10
#endif
static myth_tls_tree_node_t NP0, NP1, NP2, NP3, NP4, NP5, NP6, NP7, NP8, NP9, NP10, NP11, NP12, NP13;
static int np; static int free_count[16];
static void pool_garbage(void){   /* malloc returns uninitialised memory: every pool node starts with arbitrary contents */
  __CPROVER_havoc_object(&NP0); __CPROVER_havoc_object(&NP1); __CPROVER_havoc_object(&NP2); __CPROVER_havoc_object(&NP3); __CPROVER_havoc_object(&NP4);
  __CPROVER_havoc_object(&NP5); __CPROVER_havoc_object(&NP6); __CPROVER_havoc_object(&NP7); __CPROVER_havoc_object(&NP8); __CPROVER_havoc_object(&NP9);
  __CPROVER_havoc_object(&NP10); __CPROVER_havoc_object(&NP11); __CPROVER_havoc_object(&NP12); __CPROVER_havoc_object(&NP13);
}
void *real_malloc(size_t s){
  if (s == myth_tls_tree_node_sz_node || s == myth_tls_tree_node_sz_leaf) { int i = np++; __CPROVER_assert(i < NPOOL && i < 14, "VERIF harness node pool large enough");
    return i==0?&NP0:i==1?&NP1:i==2?&NP2:i==3?&NP3:i==4?&NP4:i==5?&NP5:i==6?&NP6:i==7?&NP7:i==8?&NP8:i==9?&NP9:i==10?&NP10:i==11?&NP11:i==12?&NP12:&NP13; }
  __CPROVER_assert(0, "VERIF unexpected allocation size in the TLS tree"); return 0;
}
static int pool_index(void *p){
  return p==&NP0?0:p==&NP1?1:p==&NP2?2:p==&NP3?3:p==&NP4?4:p==&NP5?5:p==&NP6?6:p==&NP7?7:p==&NP8?8:p==&NP9?9:p==&NP10?10:p==&NP11?11:p==&NP12?12:p==&NP13?13:-1;
}
void real_free(void *p){
  int i = pool_index(p);
#ifdef VERIF_LOCAL_NODES
  if (i < 0) i = 14;
#endif
  CHECK(i >= 0, "C11 only nodes obtained from the allocator are freed");
  if (i >= 0) { free_count[i]++; CHECK(free_count[i] == 1, "C11 a tree node is freed at most once"); }
}
void *real_realloc(void *p, size_t s){ (void)p; (void)s; __CPROVER_assert(0, "VERIF unexpected realloc"); return 0; }
volatile int g_myth_init_state = myth_init_state_initialized; myth_globalattr_t g_attr;
__thread unsigned int g_myth_random_temp; myth_running_env_t g_envs; int g_envs_sz; __thread int g_worker_rank;
