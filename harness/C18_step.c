/* C18 (engine A): one closing step of the DAG recorder from an arbitrary valid section or task.
 *
 * dr_summarize_section_or_task() is the only place where sub-results are folded into a parent and where a subgraph
 * is contracted (by span, by node count, or towards a node-count target).  The harness builds a section/task `S`
 * whose K children (and the tasks created by create_task children) carry arbitrary, already-summarised infos --
 * that is the induction hypothesis "each child's totals equal the totals of its uncontracted intervals" -- and
 * runs the real function with arbitrary contraction options.  It then checks that S's totals are exactly the
 * serial-sum / max-over-created-children combination of the children's totals, whatever the options did to the
 * in-memory graph, that t_inf <= t_1 is preserved, that the children that survive keep their totals, and that the
 * materialised node count matches the graph that is left.  Together with the leaf step (dr_end_interval_, SCEN 1)
 * this gives the property for every well-nested execution by induction on the nesting depth.
 */
#define DAG_RECORDER 2
#include "dag_recorder.c"
#include "verif_a.h"
#ifdef VERIF_NATIVE   /* native replay: the other translation units of libdr that dag_recorder.c refers to (never called by the harness) */
#include "options.c"
#include "papi_counters.c"
#endif

#ifndef K_
#define K_ 2
#define TASK 0
#define SHAPE 0x03
#endif
#define KMAX K_
#ifndef METHOD
#define METHOD 2
#endif
#ifndef NCT_MAX
#define NCT_MAX 16
#endif
#ifndef SCEN
#define SCEN 0
#endif

static dr_dag_node S, X[KMAX], C[KMAX], GX[KMAX], GC[KMAX];
static dr_dag_node_freelist FL;
static dr_prune_nodes_stack PS;
static dr_prune_nodes_stack_ent PSE[16];

/* dr_malloc/dr_free stand-ins (goto-instrument --replace-calls): typed static pools chosen by request size, so that the
   traversal stack cells and the child-pointer scratch arrays of dr_free_dag are ordinary typed objects for cbmc */
static dr_dag_node_stack_cell CELLS[24]; static int n_cells;
static dr_dag_node *PTRS[12][KMAX + 1]; static int n_ptrs;
void *stub_dr_malloc(size_t sz){
  if (sz == sizeof(dr_dag_node_stack_cell)){ __CPROVER_assert(n_cells < 24, "unwinding assertion: harness cell pool"); return &CELLS[n_cells++]; }
  __CPROVER_assert(sz <= sizeof(dr_dag_node *) * (KMAX + 1) && n_ptrs < 12, "unwinding assertion: harness pointer-array pool"); return &PTRS[n_ptrs++][0];
}
void stub_dr_free(void *a, size_t sz){ (void)a; (void)sz; }

/* METHOD 1 only (--replace-calls dr_collapse_subgraph:stub_collapse): inside the pruning loop the contraction of a
   sub-subgraph is replaced by its effect on the graph (children dropped, one node left); the real dr_collapse_subgraph /
   dr_free_dag are exercised on S itself by the METHOD 2 queries */
/* METHOD 1: the pruning stack is a static array of 16 entries; growing it (malloc + memcpy of a symbolic size) is replaced
   by a bound check that is reported as an unwinding failure */
void stub_ps_ensure(dr_prune_nodes_stack *S, long x){ __CPROVER_assert(x <= S->sz, "unwinding assertion: harness prune stack bound"); }
static int n_collapsed;
void stub_collapse(dr_dag_node *s, dr_dag_node_freelist *fl){
  (void)fl; n_collapsed++;
  s->subgraphs->n = 0; s->subgraphs->head = s->subgraphs->tail = 0; s->info.cur_node_count = 1;
}

static unsigned long long nd_ull(void){ unsigned long long v; v = ((unsigned long long)(unsigned)VERIF_CHOICE() << 32) | (unsigned)VERIF_CHOICE(); return v; }
static long nd_cnt(void){ long v = (long)(unsigned)VERIF_CHOICE(); ASSUME(v >= 0 && v < (1L << 30)); return v; }

static void sym_totals(dr_dag_node *n){
  int k;
  n->info.t_1 = nd_ull(); n->info.t_inf = nd_ull();
  ASSUME(n->info.t_1 < (1ULL << 60)); ASSUME(n->info.t_inf <= n->info.t_1);
  n->info.start.t = nd_ull(); n->info.end.t = nd_ull(); ASSUME(n->info.start.t <= n->info.end.t && n->info.end.t < (1ULL << 62));
  n->info.est = nd_ull(); n->info.first_ready_t = nd_ull(); n->info.last_start_t = nd_ull();
  for (k = 0; k < dr_dag_node_kind_section; k++) n->info.logical_node_counts[k] = nd_cnt();
  for (k = 0; k < dr_dag_edge_kind_max; k++){ n->info.logical_edge_counts[k] = nd_cnt(); n->info.t_ready[k] = nd_ull(); }
  n->info.n_child_create_tasks = nd_cnt();
  n->info.worker = VERIF_CHOICE(); ASSUME(n->info.worker >= -1 && n->info.worker < 4);
  n->info.cpu = n->info.worker;
  n->info.in_edge_kind = (dr_dag_edge_kind_t)(VERIF_CHOICE() & 3);
}
static void mk_leaf(dr_dag_node *n, dr_dag_node_kind_t kind){
  int k;
  sym_totals(n);
  ASSUME(n->info.worker >= 0);
  n->info.kind = kind; n->info.cur_node_count = 1; n->info.min_node_count = 1; n->next = 0;
  n->info.t_inf = n->info.t_1;
  for (k = 0; k < dr_dag_node_kind_section; k++) n->info.logical_node_counts[k] = (k == (int)kind);
  for (k = 0; k < dr_dag_edge_kind_max; k++) n->info.logical_edge_counts[k] = 0;
  n->info.n_child_create_tasks = 0;
}
/* a summarised section/task: collapsed, or still holding one leaf `g` */
static void mk_sub(dr_dag_node *n, dr_dag_node *g, dr_dag_node_kind_t kind, int collapsed){
  sym_totals(n);
  n->info.kind = kind; n->next = 0;
  if (collapsed){
    n->subgraphs->n = 0; n->subgraphs->head = n->subgraphs->tail = 0;
    n->info.cur_node_count = 1; n->info.min_node_count = 1;
    ASSUME(n->info.worker >= 0 || 1);
  } else {
    mk_leaf(g, kind == dr_dag_node_kind_task ? dr_dag_node_kind_end_task : dr_dag_node_kind_wait_tasks);
    n->subgraphs->n = 1; n->subgraphs->head = n->subgraphs->tail = g;
    n->info.cur_node_count = 2; n->info.min_node_count = (n->info.worker == -1) ? 2 : 1;
  }
  if (kind == dr_dag_node_kind_section) n->parent_section = &S; else n->active_section = n;
}

static long list_len(dr_dag_node *s){ long c = 0; int i = 0; dr_dag_node *ch; for (ch = s->subgraphs->head; ch && i < 2; ch = ch->next, i++) c++; return c; }
static long live_nodes(dr_dag_node *s){   /* materialised nodes under S, by an independent walk (parts hold at most one leaf each: no recursion needed) */
  long c = 1; dr_dag_node *ch; int i = 0;
  for (ch = s->subgraphs->head; ch && i < KMAX; ch = ch->next, i++){
    c += 1;
    if (ch->info.kind == dr_dag_node_kind_create_task) c += 1 + list_len(ch->child);
    else if (ch->info.kind >= dr_dag_node_kind_section) c += list_len(ch);
  }
  return c;
}

int main(void){
#if SCEN == 0
  /* the shape (number and kinds of the parts) is fixed per query by -DK_ -DTASK -DSHAPE (one hex digit per part:
     0 other, 1 contracted section, 2 section holding a leaf, 3 create + contracted task, 4 create + task holding a leaf);
     the tiers enumerate the shapes; every number and every option stays symbolic */
  int K = K_, i, k;
  dr_dag_node_kind_t sk = TASK ? dr_dag_node_kind_task : dr_dag_node_kind_section;
  /* children according to the grammar: section ::= (section|create|other)* wait ; task ::= (section|other)* end */
  unsigned long long e_t1 = 0, e_run = 0, e_best = 0;
  long e_nodes[dr_dag_node_kind_section] = {0,0,0,0}, e_edges[dr_dag_edge_kind_max] = {0,0,0,0,0};
  int e_worker = 0;
  for (i = 0; i < KMAX; i++) if (i < K){
    int last = (i == K - 1), kc = (SHAPE >> (4 * i)) & 15;
    dr_dag_node *x = &X[i];
    if (last) mk_leaf(x, sk == dr_dag_node_kind_task ? dr_dag_node_kind_end_task : dr_dag_node_kind_wait_tasks);
    else if (kc == 0) mk_leaf(x, dr_dag_node_kind_other);
    else if (kc == 1 || kc == 2) mk_sub(x, &GX[i], dr_dag_node_kind_section, kc == 1);
    else { mk_leaf(x, dr_dag_node_kind_create_task); mk_sub(&C[i], &GC[i], dr_dag_node_kind_task, kc == 3); x->child = &C[i]; }
    if (i > 0) X[i-1].next = x;
    /* the oracle: totals of the uncontracted sequence, from the children's totals (induction hypothesis) */
    e_t1 += x->info.t_1; e_run += x->info.t_inf;
    for (k = 0; k < dr_dag_node_kind_section; k++) e_nodes[k] += x->info.logical_node_counts[k];
    for (k = 0; k < dr_dag_edge_kind_max; k++) e_edges[k] += x->info.logical_edge_counts[k];
    e_worker = (i == 0) ? x->info.worker : (e_worker == x->info.worker ? e_worker : -1);
    if (x->info.kind == dr_dag_node_kind_create_task){
      dr_dag_node *c = x->child;
      e_t1 += c->info.t_1; if (e_run + c->info.t_inf > e_best) e_best = e_run + c->info.t_inf;
      for (k = 0; k < dr_dag_node_kind_section; k++) e_nodes[k] += c->info.logical_node_counts[k];
      for (k = 0; k < dr_dag_edge_kind_max; k++) e_edges[k] += c->info.logical_edge_counts[k];
      e_edges[dr_dag_edge_kind_create]++; e_edges[dr_dag_edge_kind_create_cont]++;
      e_worker = (e_worker == c->info.worker ? e_worker : -1);
    }
    if (x->info.kind == dr_dag_node_kind_section && !last){ e_edges[dr_dag_edge_kind_wait_cont]++; e_edges[dr_dag_edge_kind_end] += x->info.n_child_create_tasks; }
  }
  unsigned long long e_tinf = e_best > e_run ? e_best : e_run;
  /* remember the children's totals */
  unsigned long long c_t1[KMAX], c_tinf[KMAX];
  for (i = 0; i < KMAX; i++){ c_t1[i] = X[i].info.t_1; c_tinf[i] = X[i].info.t_inf; }

  S.info.kind = sk; S.subgraphs->n = K; S.subgraphs->head = &X[0]; S.subgraphs->tail = &X[K-1]; S.next = 0;
  if (sk == dr_dag_node_kind_section) S.parent_section = 0; else S.active_section = &S;
  ASSUME(X[0].info.first_ready_t > 0);
  /* arbitrary contraction options */
  GS.opts.node_count_target = nd_cnt(); GS.opts.prune_threshold = nd_cnt(); GS.opts.collapse_max_count = nd_cnt();
  GS.opts.uncollapse_min = nd_ull(); GS.opts.collapse_max = nd_ull();
#if METHOD == 1      /* contraction towards a node-count target */
#ifdef NCT          /* case split on the target: one query per value, the last one standing for every larger value */
  ASSUME(NCT_LAST ? GS.opts.node_count_target >= NCT : GS.opts.node_count_target == NCT);
#else
  ASSUME(GS.opts.node_count_target != 0);
#endif
#elif METHOD == 2    /* contraction by logical node count, or by span */
  ASSUME(GS.opts.node_count_target == 0);
#endif
  FL.head = FL.tail = 0; FL.pages = 0;
  PS.entries = PSE; PS.sz = 16; PS.n = 0;

  dr_summarize_section_or_task(&PS, &S, &FL);

  CHECK(S.info.t_1 == e_t1, "C18 work of a closed section/task = sum of the work of its parts, whatever was contracted");
  CHECK(S.info.t_inf == e_tinf, "C18 critical path = longest chain (serial sum, max over created children), whatever was contracted");
  CHECK(S.info.t_inf <= S.info.t_1, "C18 critical path never exceeds work");
  for (k = 0; k < dr_dag_node_kind_section; k++) CHECK(S.info.logical_node_counts[k] == e_nodes[k], "C18 interval counts by kind = counts of the uncontracted sequence");
  for (k = 0; k < dr_dag_edge_kind_max; k++) CHECK(S.info.logical_edge_counts[k] == e_edges[k], "C18 edge counts by kind = counts of the uncontracted sequence");
  CHECK(S.info.worker == e_worker, "C18 worker summary: the single worker, or -1 when several took part");
  CHECK(S.info.kind == sk, "C18 kind unchanged");
  if (S.subgraphs->n == 0){
    CHECK(S.info.cur_node_count == 1 && S.subgraphs->head == 0, "C18 a contracted subgraph is one node");
    WITNESS_IF(1);
  } else {
    CHECK(S.subgraphs->head == &X[0] && S.subgraphs->n == K, "C18 an uncontracted section keeps its children");
    for (i = 0; i < KMAX; i++) if (i < K) CHECK(X[i].info.t_1 == c_t1[i] && X[i].info.t_inf == c_tinf[i], "C18 pruning below does not change the totals of the parts");
#ifndef NOLIVE
    CHECK(S.info.cur_node_count == live_nodes(&S), "C18 materialised node count matches the graph left in memory");
#endif
  }
  WITNESS();
#else
  /* leaf step: an interval's totals are its length, one node of its kind, no edges */
  static dr_dag_node N; dr_clock_pos st; int k;
  st.t = nd_ull(); st.worker = VERIF_CHOICE(); st.cpu = 0; st.pos.file = 0; st.pos.line = 0; st.pos.file_idx = 0;
  for (k = 0; k < dr_max_counters; k++){ st.counters[k] = 0; N.info.end.counters[k] = 0; }
  unsigned long long end_t = nd_ull(), est = nd_ull(), ready = nd_ull();
  ASSUME(st.t <= end_t);
  dr_dag_node_kind_t kind = (dr_dag_node_kind_t)(VERIF_CHOICE() & 3);
  dr_dag_edge_kind_t ek = (dr_dag_edge_kind_t)VERIF_CHOICE(); ASSUME((int)ek >= 0 && ek < dr_dag_edge_kind_max);
  dr_end_interval_(&N, st.worker, kind, ek, end_t, est, ready, "f", 1, st);
  CHECK(N.info.t_1 == end_t - st.t && N.info.t_inf == N.info.t_1, "C18 an interval's work and critical path are its length");
  for (k = 0; k < dr_dag_node_kind_section; k++) CHECK(N.info.logical_node_counts[k] == (k == (int)kind), "C18 an interval counts as one node of its kind");
  for (k = 0; k < dr_dag_edge_kind_max; k++) CHECK(N.info.logical_edge_counts[k] == 0, "C18 an interval holds no edges");
  CHECK(N.info.cur_node_count == 1 && N.info.min_node_count == 1 && N.info.kind == kind && N.info.worker == st.worker, "C18 leaf bookkeeping");
  WITNESS();
#endif
  return 0;
}
