/* C01 / C12 / C13: thread creation, finish, join / tryjoin / detach on the REAL myth_sched_func.h, rich worker model.
 * Logical threads: t0 = creator/joiner (root thread on worker 0), t1 = child, (t2 = second child).
 * CREATE: 0 attr NULL (child-first)   1 attribute object prepared by myth_thread_attr_init_body on a garbage-filled object
 *         2 as 1 + child_first = 0 (parent-first)   3 as 1 + detachstate = 1 (created detached)
 * FINISH: 0 the function returns      1 it calls the exit routine from a nested frame
 * REAP:   0 join    1 tryjoin loop (<= 2 attempts) then join    2 detach (the creator then waits on a flag)   3 none (detached by attribute)
 * NCHILD: 1 or 2 (second child created after the first, joined in the opposite order) */
#ifndef CREATE
#define CREATE 0
#endif
#ifndef FINISH
#define FINISH 0
#endif
#ifndef REAP
#define REAP 0
#endif
#ifndef NCHILD
#define NCHILD 1
#endif
#define VN (1 + NCHILD)
#define VERIF_RICH 1
#include "verif_model.h"
#include "myth_sched_func.h"
#include "myth_sync_func.h"
#include "verif_model_impl.h"
int verif_blocked(int t); int verif_stuck(void); void verif_assume(int c);
volatile int g_myth_init_state = myth_init_state_initialized; myth_globalattr_t g_attr;
myth_steal_func_t g_myth_steal_func; __thread unsigned int g_myth_random_temp; int g_sched_prof;
myth_tls_key_allocator_t g_myth_tls_key_allocator[1];
static myth_freelist_t FLa[4][FREE_LIST_NUM]; static myth_freelist_t *FLp[4]; myth_freelist_t **g_myth_freelist = FLp;
/* stacks: default-size blocks (64 bytes here) and custom-size blocks (4096 bytes), typed so that only the two top words are accessed */
typedef struct { long body[6]; void *slot0; uintptr_t blk_size; } vstack_t;
typedef struct { char body[4096 - 16]; void *slot0; uintptr_t blk_size; } vbig_t;
static vstack_t STK1, STK2; static vbig_t BIG1, BIG2;
/* ---- ghost ledger (C12 / C13) ---- */
volatile int body_calls[4]; void *body_arg[4]; volatile int body_finished[4]; volatile int cell[4];
volatile int stack_freed[4], desc_freed[4], stack_given[4], desc_given[4];
static int ARG[4], RET[4];
void *mmap(void *a, size_t l, int p, int f, int fd, off_t o){ (void)a; (void)l; (void)p; (void)f; (void)fd; (void)o; verif_assume(0); return 0; } /* fresh mappings are outside this harness (C12 stack_alloc) */
void verif_wrap_free_myth_thread_struct_stack(myth_running_env_t e, myth_thread_t th){
  int k = verif_tid_of_th(th);
  verif_check(k >= 1 && k < VN, "C12 only a thread's own stack is released");
  verif_check(!verif_on_own_stack[k], "C12 a stack is returned to the allocator only after its thread's final switch-away");
  verif_check(body_finished[k], "C12 a stack is released only after the thread's function finished");
  verif_check(stack_freed[k] == 0, "C12 a stack is released at most once");
  stack_freed[k]++;
  free_myth_thread_struct_stack(e, th);
}
void verif_wrap_free_myth_thread_struct_desc(myth_running_env_t e, myth_thread_t th){
  int k = verif_tid_of_th(th);
  verif_check(k >= 1 && k < VN, "C12 only thread records are released");
  verif_check(body_finished[k] && !verif_on_own_stack[k], "C12 a thread record is released only after the thread finished and switched away for the last time");
  verif_check(desc_freed[k] == 0, "C13 a thread is reaped (its record released) at most once");
  desc_freed[k]++;
  free_myth_thread_struct_desc(e, th);
}
static inline void *nested_exit(int k){ myth_exit_body(&RET[k]); return 0; }
static inline void *child_body_k(int k, void *a){
  __sync_fetch_and_add(&body_calls[k], 1); body_arg[k] = a;
  cell[k] = 40 + k;                       /* a memory write the joiner must see */
  body_finished[k] = 1;
#if FINISH == 1
  return nested_exit(k);
#else
  return &RET[k];
#endif
}
static void *child1(void *a){ return child_body_k(1, a); }
static void *child2(void *a){ return child_body_k(2, a); }
void verif_init(void){
  verif_model_init();
  g_attr.initialized = 1; g_attr.stacksize = 4096; g_attr.guardsize = 0; g_attr.child_first = 1; g_attr.n_workers = VN;
  FLp[0] = FLa[0]; FLp[1] = FLa[1]; FLp[2] = FLa[2]; FLp[3] = FLa[3];
  /* worker 0 has one record and one stack of each kind on its free lists, worker 1 too (for a second creation after migration) */
  /* a record taken from a free list is a RECYCLED one: apart from its (free) lock it holds whatever its previous thread left behind */
  TD1.detached = (uint8_t)nondet_long(); TD1.status = (myth_status_t)(nondet_long() & 7); TD1.join_thread = (nondet_long() & 1) ? &TD0 : 0;
  TD1.cancelled = (uint8_t)nondet_long(); TD1.cancel_enabled = (uint8_t)nondet_long(); TD1.result = (void*)nondet_long(); TD1.entry_func = 0;
  TD1.custom_data_size = (int)nondet_long(); TD1.stack = (void*)0; TD1.env = (nondet_long() & 1) ? &EV1 : &EV0;
  myth_spin_init_body(&TD1.lock); EV0.freelist_desc.head = (void*)&TD1; TD1.next = 0;
  STK1.slot0 = 0; STK1.blk_size = 0; EV0.freelist_stack.head = (void*)&STK1.slot0;
  FLa[0][12].head = (void*)&BIG1;
#if NCHILD > 1
  myth_spin_init_body(&TD2.lock); EV1.freelist_desc.head = (void*)&TD2; TD2.next = 0;
  STK2.slot0 = 0; STK2.blk_size = 0; EV1.freelist_stack.head = (void*)&STK2.slot0;
  FLa[1][12].head = (void*)&BIG2;
#endif
}
static inline int create_one(int k, myth_thread_t *id, myth_func_t fn){
#if CREATE == 0
  return myth_create_ex_body(id, 0, fn, &ARG[k]);
#else
  myth_thread_attr_t at;
  memset(&at, 0x5a, sizeof at);                       /* the caller's stack holds garbage */
  myth_thread_attr_init_body(&at);
#if CREATE == 2 || CREATE == 3
  myth_thread_attr_setstacksize_body(&at, 0);      /* default-size stack (the custom-size allocator path is CREATE == 1) */
#endif
#if CREATE == 2
  at.child_first = 0;
#endif
#if CREATE == 3
  myth_thread_attr_setdetachstate_body(&at, 1);
#endif
  return myth_create_ex_body(id, &at, fn, &ARG[k]);
#endif
}
volatile int reaped[4];
static inline void reap(int k, myth_thread_t id){
  void *res = 0;
#if REAP == 0 || REAP == 1
#if REAP == 1
  int r = myth_tryjoin_body(id, &res);
  int f1 = body_finished[k];
  verif_check(r == 0 || r == EBUSY, "C13 tryjoin returns 0 or EBUSY");
  if (r == EBUSY) { r = myth_tryjoin_body(id, &res); }
  if (r == EBUSY) { r = myth_join_body(id, &res); }
  (void)f1;
#else
  int r = myth_join_body(id, &res);
#endif
  verif_check(r == 0, "C01 join returns 0");
  verif_check(body_finished[k], "C01 join returns only after the thread function has returned or called the exit routine");
  verif_check(res == &RET[k], "C01 join yields exactly the return / exit value");
  verif_check(cell[k] == 40 + k, "C01 memory written by the thread is visible to the joiner");
  verif_check(body_calls[k] == 1 && body_arg[k] == &ARG[k], "C01 the start function was invoked exactly once with the supplied argument");
  verif_check(desc_freed[k] == 1, "C13 joining reaps the thread: its record is released for reuse");
  reaped[k] = 1;
#elif REAP == 2
  int r = myth_detach_body(id);
  verif_check(r == 0, "C13 detach returns 0");
  reaped[k] = 1;
#else
  (void)id; reaped[k] = 1;
#endif
}
void t0(void){
  myth_thread_t id1 = 0, id2 = 0;
  int r = create_one(1, &id1, child1);
  verif_check(r == 0 && id1 == &TD1, "C01 creation succeeds and reports the new thread id");
#if NCHILD > 1
  r = create_one(2, &id2, child2);
  verif_check(r == 0 && id2 != id1 && id2 != 0, "C01 second creation yields a distinct thread");
  reap(2, id2);
#endif
  reap(1, id1);
  (void)id2;
}
void t1(void){ verif_child_main(1); }
void t2(void){ verif_child_main(2); }
static inline int on_list(myth_freelist_t *fl, void *p){ myth_freelist_cell_t *c = fl->head; int n = 0;
  if (c == p) n++; if (c) { c = c->next; if (c == p) n++; if (c) { c = c->next; if (c == p) n++; } } return n; }
void verif_final(void){
  if (verif_all_done()) {
    verif_check(body_calls[1] == 1 && body_arg[1] == &ARG[1], "C01 every created thread ran its start function exactly once with the supplied argument");
    verif_check(stack_freed[1] == 1, "C13 the stack of a finished thread is recycled exactly once");
    verif_check(desc_freed[1] == 1, "C13 every thread is reaped exactly once (join / tryjoin / detach / detach-state attribute) and its record recycled");
    { int n = on_list(&EV0.freelist_desc, &TD1) + on_list(&EV1.freelist_desc, &TD1)
#if VN > 2
            + on_list(&EV2.freelist_desc, &TD1)
#endif
            ; verif_check(n == 1, "C13 at quiescence the record of a reaped thread sits on exactly one free list"); }
#if NCHILD > 1
    verif_check(body_calls[2] == 1 && stack_freed[2] == 1 && desc_freed[2] == 1, "C01/C13 second child ran once and was reaped once");
#endif
  }
  verif_witness(verif_all_done());
}
