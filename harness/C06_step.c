/* C06 (engine A): one arrival at the barrier from an ARBITRARY reachable state, every N in [1, 2^31):
 * with c earlier arrivals of this round (0 <= c < N), the arriving thread either blocks (c < N-1) or, as the last one, resets the
 * state for the next round and releases exactly the N-1 sleepers, and only it gets the serial-thread indicator.
 * The sleeper-stack operations are replaced by recording stubs (their protocol is checked by the engine-B jobs and the
 * release step). */
#include "myth_sync_func.h"
#include "verif_a.h"
volatile int g_myth_init_state; myth_globalattr_t g_attr; myth_steal_func_t g_myth_steal_func; __thread unsigned int g_myth_random_temp; int g_sched_prof;
myth_tls_key_allocator_t g_myth_tls_key_allocator[1]; myth_running_env_t g_envs; int g_envs_sz; __thread int g_worker_rank;
static myth_barrier_t B[1];
static int n_wake_calls, n_block; static long woken, state_at_wake;
int stub_wake_many(myth_sleep_stack_t *s, callback_on_wakeup_t cb, void *arg, long n){ (void)cb; (void)arg;
  CHECK(s == B->sleep_s, "C06 sleepers are released from the barrier's own stack"); n_wake_calls++; woken = n; state_at_wake = B->state; return (int)n; }
void stub_block(myth_sleep_stack_t *s, myth_mutex_t *m){ (void)m; CHECK(s == B->sleep_s, "C06 a participant sleeps on the barrier's own stack"); n_block++; }
int main(void){
  long n = VERIF_CHOICE(); ASSUME(1 <= n && n < (1L << 31));
  myth_barrier_init_body(B, 0, n);
  long c = VERIF_CHOICE(); ASSUME(0 <= c && c < n);
  B->state = c;
  int r = myth_barrier_wait_body(B);
  if (c == n - 1) {
    CHECK(r == MYTH_BARRIER_SERIAL_THREAD, "C06 the last arriver gets the serial-thread indicator");
    CHECK(n_wake_calls == 1 && woken == n - 1 && n_block == 0, "C06 the last arriver releases exactly the N-1 sleeping participants and does not sleep itself");
    CHECK(B->state == 0 && state_at_wake == 0, "C06 the state is reset for the next round before anybody is released");
    WITNESS_IF(n > 3);
  } else {
    CHECK(r == 0, "C06 every other participant returns 0");
    CHECK(n_block == 1 && n_wake_calls == 0, "C06 a participant that is not the last one sleeps and releases nobody");
    CHECK(B->state == c + 1, "C06 an arrival is counted once");
  }
  WITNESS();
  return 0;
}
