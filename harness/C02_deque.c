/* C02: the real work-stealing deque (src/myth_wsqueue_func.h), real spinlock and real fences, small capacity.
 * Tagged dummy descriptors; every tag may be obtained at most once, and when everybody finished
 * obtained + remaining == inserted.
 * MODE 0: owner (pre-filled a,b) pop, pop       | thief take
 * MODE 8: owner push a, pop                    | thief take
 * MODE 1: owner push a, push b                | thief take, take
 * MODE 2: owner push a,b,c  pop pop           | thief take            (3 elements)
 * MODE 3: owner (pre-filled a) pop            | thief take | thief take
 * MODE 4: owner (queue at upper boundary, pre-filled a,b) push c (re-centres), pop | thief take
 * MODE 5: owner (queue at lower boundary, pre-filled a) put b (re-centres), pop    | thief take
 * MODE 6: owner (pre-filled a) pop            | other worker trypass b, take
 * MODE 9: owner (queue at lower boundary, pre-filled a) pop | other worker trypass b (must be refused or really stored), take
 * MODE 10: owner (pre-filled a,b,c) pop (fast path) | thief take, take, take   (the Dekker window of the fast path: a duplicate needs three steals while
 *          the owner's top-- is still in its store buffer; this is the scenario in which the fence in pop matters)
 * MODE 7: owner (pre-filled a,b) pop          | thief peek (hint is NULL or a descriptor that was in the queue), take */
#ifndef MODE
#define MODE 0
#endif
#ifndef CAP
#define CAP 8
#endif
#include "myth_config.h"
#undef INITIAL_QUEUE_SIZE
#define INITIAL_QUEUE_SIZE CAP
#include "myth_wsqueue_func.h"
void verif_check(int c, const char *msg); void verif_witness(int c); int verif_all_done(void);
struct myth_thread { int tagword; };              /* the deque only stores pointers; the descriptor type is opaque to it */
struct myth_thread TA, TB, TC;                 /* tagged dummy descriptors */
static struct myth_thread *SLOTS[CAP];
myth_thread_queue Q;
volatile int got[4]; int inserted; volatile int n_obtained;
static inline int tag(struct myth_thread *t){ return t == &TA ? 1 : t == &TB ? 2 : t == &TC ? 3 : 0; }
static inline void obtained(struct myth_thread *t){
  if (t) { int k = tag(t);
    verif_check(k != 0, "C02 an obtained entry is one of the inserted threads (no garbage slot)");
    int n = __sync_add_and_fetch(&got[k], 1);
    verif_check(n == 1, "C02 a runnable thread is obtained by exactly one worker (never duplicated)");
    __sync_add_and_fetch(&n_obtained, 1); }
}
void verif_init(void){
  Q.size = CAP; Q.ptr = SLOTS; Q.base = CAP / 2; Q.top = CAP / 2; Q.lock.locked = 0;
#if MODE == 0
  SLOTS[CAP/2] = &TA; SLOTS[CAP/2 + 1] = &TB; Q.top = CAP/2 + 2; inserted = 2;
#elif MODE == 10
  SLOTS[CAP/2] = &TA; SLOTS[CAP/2 + 1] = &TB; SLOTS[CAP/2 + 2] = &TC; Q.top = CAP/2 + 3; inserted = 3;
#elif MODE == 3 || MODE == 6
  SLOTS[CAP/2] = &TA; Q.top = CAP/2 + 1; inserted = 1;
#elif MODE == 7
  SLOTS[CAP/2] = &TA; SLOTS[CAP/2 + 1] = &TB; Q.top = CAP/2 + 2; inserted = 2;
#elif MODE == 4
  SLOTS[CAP-2] = &TA; SLOTS[CAP-1] = &TB; Q.base = CAP - 2; Q.top = CAP; inserted = 2;
#elif MODE == 5 || MODE == 9
  SLOTS[0] = &TA; Q.base = 0; Q.top = 1; inserted = 1;
#endif
}
#if MODE == 0
void t0(void){ obtained(myth_queue_pop(&Q)); obtained(myth_queue_pop(&Q)); }
void t1(void){ obtained(myth_queue_take(&Q)); }
#define INS 2
#elif MODE == 10
void t0(void){ obtained(myth_queue_pop(&Q)); }
void t1(void){ obtained(myth_queue_take(&Q)); obtained(myth_queue_take(&Q)); obtained(myth_queue_take(&Q)); }
#define INS 3
#elif MODE == 8
void t0(void){ myth_queue_push(&Q, &TA); obtained(myth_queue_pop(&Q)); }
void t1(void){ obtained(myth_queue_take(&Q)); }
#define INS 1
#elif MODE == 1
void t0(void){ myth_queue_push(&Q, &TA); myth_queue_push(&Q, &TB); }
void t1(void){ obtained(myth_queue_take(&Q)); obtained(myth_queue_take(&Q)); }
#define INS 2
#elif MODE == 2
void t0(void){ myth_queue_push(&Q, &TA); myth_queue_push(&Q, &TB); myth_queue_push(&Q, &TC); obtained(myth_queue_pop(&Q)); obtained(myth_queue_pop(&Q)); }
void t1(void){ obtained(myth_queue_take(&Q)); }
#define INS 3
#elif MODE == 3
void t0(void){ obtained(myth_queue_pop(&Q)); }
void t1(void){ obtained(myth_queue_take(&Q)); }
void t2(void){ obtained(myth_queue_take(&Q)); }
#define INS 1
#elif MODE == 4
void t0(void){ myth_queue_push(&Q, &TC); obtained(myth_queue_pop(&Q)); }
void t1(void){ obtained(myth_queue_take(&Q)); }
#define INS 3
#elif MODE == 5
void t0(void){ myth_queue_put(&Q, &TB); obtained(myth_queue_pop(&Q)); }
void t1(void){ obtained(myth_queue_take(&Q)); }
#define INS 2
#elif MODE == 6 || MODE == 9
volatile int passed;
void t0(void){ obtained(myth_queue_pop(&Q)); }
void t1(void){ passed = myth_queue_trypass(&Q, &TB); obtained(myth_queue_take(&Q)); }
#define INS (1 + passed)
#elif MODE == 7
void t0(void){ obtained(myth_queue_pop(&Q)); }
void t1(void){ struct myth_thread *h = myth_queue_peek(&Q);
  verif_check(h == 0 || h == &TA || h == &TB, "C02 a peek hint is NULL or a descriptor that was in the queue");
  obtained(myth_queue_take(&Q)); }
#define INS 2
#endif
void verif_final(void){
  if (verif_all_done()) {
    int remaining = Q.top - Q.base;
    verif_check(remaining >= 0, "C02 queue indices consistent at quiescence");
    verif_check(n_obtained + remaining == INS, "C02 no runnable thread is lost: obtained + still queued == inserted");
    { int i; for (i = 0; i < CAP; i++) if (i >= Q.base && i < Q.top) { int k = tag(SLOTS[i]); verif_check(k != 0 && got[k] == 0, "C02 what remains queued was not also handed out"); } }
  }
  verif_witness(verif_all_done());
}
