/* C19 (engine A): structural well-formedness of the position-independent DAG.
 * A small execution is recorded by the real recorder (the simulator of C18_e2e.c), flattened by the real dr_make_pi_dag
 * (node enumeration, edge enumeration, sort, edge ranges) and shrunk by the real dr_copy_pi_dag; both results go through a
 * structural validator written independently of the library (see c19_validate in C18_e2e.c). */
#define C19_PIDAG 1
#include "C18_e2e.c"
