/* C19 (engine A): the array kernels of the position-independent DAG (src/profiler/dr_dump.c), each from an ARBITRARY valid input
 * rather than from a recorded execution (the whole flattening of a recorded DAG did not come within reach, DESIGN 10.12):
 *   KERNEL 0  dr_pi_dag_sort_edges + dr_pi_dag_set_edge_ptrs: for every edge array with endpoints inside the DAG, the per-node
 *             edge ranges partition the sorted array and every edge in node i's range has source i ("edges are grouped by source");
 *   KERNEL 1  dr_pi_dag_copy_and_prune_nodes (the shrinking copy used by conversion) from an arbitrary well-formed node array and
 *             arbitrary conversion options: the result is well formed (offsets inside the result, children follow parents, every
 *             node but the root referenced once), the root's totals are unchanged and nothing is added;
 *   KERNEL 2  dr_pi_dag_count_edges_uncollapsed + dr_pi_dag_enum_edges on an arbitrary well-formed node array: exactly the
 *             counted number of edges is produced and all endpoints are nodes of the DAG that are leaves or contracted subgraphs.
 * Well-formedness (the representation invariant) is stated once in wf() and is the same predicate on input and output. */
#define DAG_RECORDER 2
#include "dag_recorder.c"
#include "dr_dump.c"
#include "verif_a.h"
#ifdef VERIF_NATIVE
#include "options.c"
#include "papi_counters.c"
#endif
#ifndef NMAX
#define NMAX 5
#endif
#ifndef MMAX
#define MMAX 6
#endif
#ifndef KERNEL
#define KERNEL 0
#endif
static dr_pi_dag_node TIN[NMAX], TOUT[NMAX]; static dr_pi_dag_edge EB[MMAX + 1]; static long MAPB[NMAX];
static int n_nodes_alloc;
void *c19_alloc_nodes(size_t sz){ __CPROVER_assert(sz <= sizeof(TOUT) && n_nodes_alloc == 0, "unwinding assertion: harness node-array bound"); n_nodes_alloc++; return (void *)TOUT; }
void *c19_alloc_edges(size_t sz){ __CPROVER_assert(sz <= sizeof(EB), "unwinding assertion: harness edge-array bound"); return (void *)EB; }
void *c19_alloc_map(size_t sz){ __CPROVER_assert(sz <= sizeof(MAPB), "unwinding assertion: harness map bound"); return (void *)MAPB; }
void stub_dr_free(void *a, size_t sz){ (void)a; (void)sz; }
long stub_intern(dr_string_table *t, const char *s){ (void)t; (void)s; return 0; }   /* string tables are outside these kernels */
/* environment: qsort according to its contract (typed insertion sort over the edge array, calling the real comparison) */
void qsort(void *base, size_t n, size_t sz, int (*cmp)(const void *, const void *)){
  dr_pi_dag_edge *E = (dr_pi_dag_edge *)base; size_t i, j; (void)cmp;
  __CPROVER_assert(sz == sizeof(dr_pi_dag_edge), "VERIF model: qsort is only used on the edge array");
  for (i = 1; i < n; i++){ dr_pi_dag_edge k = E[i]; j = i;
    while (j > 0 && edge_cmp(&E[j - 1], &k) > 0){ E[j] = E[j - 1]; j--; }
    E[j] = k; }
}
static int is_open(dr_pi_dag_node *u){ return u->info.kind >= dr_dag_node_kind_section && u->subgraphs_begin_offset < u->subgraphs_end_offset; }
/* the representation invariant of a node array of n nodes; returns 1 iff well formed */
static int wf(dr_pi_dag_node *T, long n){
  long i, j; long refs[NMAX]; int ok = 1;
  if (n < 1 || n > NMAX) return 0;
  for (i = 0; i < NMAX; i++) refs[i] = 0;
  for (i = 0; i < NMAX; i++) if (i < n){
    dr_pi_dag_node *u = &T[i]; int k = (int)u->info.kind;
    if (k < 0 || k > dr_dag_node_kind_task) ok = 0;
    else if (k == dr_dag_node_kind_create_task){
      long c = i + u->child_offset;
      if (!(u->child_offset > 0 && c < n)) ok = 0; else { if (T[c].info.kind != dr_dag_node_kind_task) ok = 0; refs[c]++; }
    } else if (k >= dr_dag_node_kind_section){
      long a = i + u->subgraphs_begin_offset, b = i + u->subgraphs_end_offset;
      if (u->subgraphs_begin_offset > u->subgraphs_end_offset) ok = 0;
      else if (u->subgraphs_begin_offset < u->subgraphs_end_offset){
        if (!(u->subgraphs_begin_offset > 0 && b <= n)) ok = 0;
        else {
          for (j = 0; j < NMAX; j++) if (j >= a && j < b){ int kk = (int)T[j].info.kind; refs[j]++;
            if (kk == dr_dag_node_kind_task) ok = 0;                                     /* tasks hang below create nodes only */
            if (k == dr_dag_node_kind_task && kk == dr_dag_node_kind_create_task) ok = 0; /* creates live in sections */
            if ((kk == dr_dag_node_kind_wait_tasks || kk == dr_dag_node_kind_end_task) != (j == b - 1)) ok = 0;   /* closing interval last, and only there */
            if (j == b - 1 && kk != (k == dr_dag_node_kind_task ? dr_dag_node_kind_end_task : dr_dag_node_kind_wait_tasks)) ok = 0; }
        }
      }
    }
  }
  if (T[0].info.kind != dr_dag_node_kind_task || refs[0] != 0) ok = 0;
  for (i = 1; i < NMAX; i++) if (i < n && refs[i] != 1) ok = 0;
  return ok;
}
static long nd_small(void){ long v = VERIF_CHOICE(); ASSUME(v >= -2 && v <= NMAX + 1); return v; }
static void sym_nodes(dr_pi_dag_node *T, long n){
  long i;
  for (i = 0; i < NMAX; i++){
    T[i].info.kind = (dr_dag_node_kind_t)(VERIF_CHOICE() & 7);
    T[i].subgraphs_begin_offset = nd_small(); T[i].subgraphs_end_offset = nd_small();
#ifdef VERIF_UNION_IS_STRUCT
    T[i].child_offset = nd_small();
#endif
    T[i].info.in_edge_kind = (dr_dag_edge_kind_t)VERIF_CHOICE(); ASSUME((int)T[i].info.in_edge_kind >= 0 && T[i].info.in_edge_kind < dr_dag_edge_kind_max);
    T[i].info.worker = (int)nd_small();
    T[i].info.start.t = (unsigned)VERIF_CHOICE(); T[i].info.end.t = T[i].info.start.t + (unsigned)VERIF_CHOICE();
    { int k; for (k = 0; k < dr_dag_node_kind_section; k++){ long c = VERIF_CHOICE(); ASSUME(c >= 0 && c < (1L << 20)); T[i].info.logical_node_counts[k] = c; } }
    T[i].info.t_1 = (unsigned)VERIF_CHOICE(); T[i].info.t_inf = (unsigned)VERIF_CHOICE();
  }
  (void)n;
}
int main(void){
  static dr_pi_dag G, G2; long n = VERIF_CHOICE(), i, j;
  ASSUME(n >= 1 && n <= NMAX);
#if KERNEL == 0
  long m = VERIF_CHOICE(); ASSUME(m >= 0 && m <= MMAX);
  for (j = 0; j < MMAX; j++){ EB[j].u = nd_small(); EB[j].v = nd_small(); EB[j].kind = (dr_dag_edge_kind_t)(VERIF_CHOICE() & 3);
    if (j < m) ASSUME(EB[j].u >= 0 && EB[j].u < n && EB[j].v >= 0 && EB[j].v < n); }
  G.n = n; G.m = m; G.T = TIN; G.E = EB;
  dr_pi_dag_sort_edges(&G);
  dr_pi_dag_set_edge_ptrs(&G);
  for (i = 0; i < NMAX; i++) if (i < n){
    dr_pi_dag_node *u = &TIN[i];
    CHECK(0 <= u->edges_begin && u->edges_begin <= u->edges_end && u->edges_end <= m, "C19 edge range of a node lies inside the edge array");
    if (i == 0) CHECK(u->edges_begin == 0, "C19 edge ranges start at 0");
    if (i == n - 1) CHECK(u->edges_end == m, "C19 edge ranges end at m");
    if (i + 1 < n) CHECK(u->edges_end == TIN[i + 1].edges_begin, "C19 edge ranges of consecutive nodes are contiguous");
    for (j = 0; j < MMAX; j++) if (j < m) CHECK((j >= u->edges_begin && j < u->edges_end) == (EB[j].u == i), "C19 edges are grouped by source node: node i's range holds exactly the edges leaving i");
  }
  for (j = 0; j + 1 < MMAX; j++) if (j + 1 < m) CHECK(EB[j].u <= EB[j + 1].u, "C19 the edge array is sorted by source");
  WITNESS_IF(m == MMAX && n == NMAX);
#elif KERNEL == 1
  sym_nodes(TIN, n);
  ASSUME(wf(TIN, n));
  G.n = n; G.T = TIN; G.m = 0; G.E = 0; G.S = 0;
  GS.opts.collapse_max_count = VERIF_CHOICE(); GS.opts.uncollapse_min = (unsigned)VERIF_CHOICE(); GS.opts.collapse_max = (unsigned)VERIF_CHOICE();
  dr_pi_dag_copy_and_prune_nodes(&G2, &G, 0);
  CHECK(G2.n >= 1 && G2.n <= n, "C19 shrinking keeps the root and never adds nodes");
  CHECK(G2.T == TOUT && wf(TOUT, G2.n), "C19 a shrunk DAG is well formed: offsets inside the DAG, children after parents, every node referenced once");
  CHECK(TOUT[0].info.t_1 == TIN[0].info.t_1 && TOUT[0].info.t_inf == TIN[0].info.t_inf, "C19 shrinking preserves work and critical path");
  { int k; for (k = 0; k < dr_dag_node_kind_section; k++) CHECK(TOUT[0].info.logical_node_counts[k] == TIN[0].info.logical_node_counts[k], "C19 shrinking preserves the interval counts"); }
  WITNESS_IF(G2.n < n && G2.n > 1);
#else
  sym_nodes(TIN, n);
  ASSUME(wf(TIN, n));
  G.n = n; G.T = TIN;
  dr_pi_dag_enum_edges(&G);
  CHECK(G.E == EB && G.m >= 0 && G.m <= MMAX, "C19 the enumerated edges fill exactly the counted array");
  for (j = 0; j < MMAX; j++) if (j < G.m){
    CHECK(EB[j].u >= 0 && EB[j].u < n && EB[j].v >= 0 && EB[j].v < n, "C19 edge endpoints refer to nodes inside the DAG");
    if (EB[j].u >= 0 && EB[j].u < n && EB[j].v >= 0 && EB[j].v < n)
      CHECK(!is_open(&TIN[EB[j].u]) && !is_open(&TIN[EB[j].v]), "C19 edges connect leaves (intervals or contracted subgraphs)");
    CHECK((int)EB[j].kind >= 0 && EB[j].kind < dr_dag_edge_kind_max, "C19 edge kind is valid");
  }
  WITNESS_IF(G.m >= 3);
#endif
  WITNESS();
  return 0;
}
