/* native replay shim: turns a cbmc query source into an ordinary program whose
   nondeterministic choices are read, in order, from the file $VERIF_ND_FILE */
#ifndef VERIF_NATIVE_SHIM_H
#define VERIF_NATIVE_SHIM_H
#include <stdio.h>
#include <stdlib.h>
#include <string.h>
static FILE *verif_ndf;
static long verif_native_choice(void) {
  long v = 0; char buf[128];
  if (!verif_ndf) { extern char **environ; char **e; const char *p = 0;   /* harnesses may stub getenv: scan environ directly */
    for (e = environ; e && *e; e++) if (!strncmp(*e, "VERIF_ND_FILE=", 14)) p = *e + 14;
    verif_ndf = p ? fopen(p, "r") : 0; }
  if (verif_ndf && fgets(buf, sizeof buf, verif_ndf)) { v = strtol(buf, 0, 0); }
  return v;
}
#define VERIF_CHOICE() verif_native_choice()
#define __CPROVER_assert(c, m) do { if (!(c)) { printf("%s: %s\n", strncmp((m), "WITNESS", 7) ? "VERIF-ASSERT-FIRED" : "VERIF-WITNESS", (m)); fflush(stdout); if (strncmp((m), "WITNESS", 7)) exit(1); } } while (0)
#define __CPROVER_assume(c) do { if (!(c)) { printf("VERIF-ASSUME-FAILED line %d\n", __LINE__); fflush(stdout); exit(77); } } while (0)
#define VERIF_TRACE(t, cs) printf("  segment: thread %d ran with preemption point %d -> pc=%d blocked=%d spin=%d done=%d\n", (t), (cs), TH[t].pc, TH[t].blocked, TH[t].spin, TH[t].done)
#define __CPROVER_cover(c) do { } while (0)
#endif
