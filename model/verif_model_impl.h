/* second half of the model: needs the full struct definitions, so it is included
 * after the real *_func.h headers. */
#ifndef VERIF_MODEL_IMPL_H
#define VERIF_MODEL_IMPL_H
struct myth_thread TD0, TD1;
struct myth_running_env EV0, EV1;
#if VN > 2
struct myth_thread TD2; struct myth_running_env EV2;
#endif
#if VN > 3
struct myth_thread TD3; struct myth_running_env EV3;
#endif
myth_running_env_t g_envs;
int g_envs_sz = VN;
__thread int g_worker_rank;
volatile int verif_ctx_saved[4];
volatile int verif_wake[4];
volatile int verif_started[4];
volatile int verif_nrun[4];

#if VN == 2
static inline struct myth_thread *verif_td(int k){ return k == 0 ? &TD0 : &TD1; }
#elif VN == 3
static inline struct myth_thread *verif_td(int k){ return k == 0 ? &TD0 : k == 1 ? &TD1 : &TD2; }
#else
static inline struct myth_thread *verif_td(int k){ return k == 0 ? &TD0 : k == 1 ? &TD1 : k == 2 ? &TD2 : &TD3; }
#endif
#if VN == 2
static inline myth_running_env_t verif_ev(int k){ return k == 0 ? &EV0 : &EV1; }
#elif VN == 3
static inline myth_running_env_t verif_ev(int k){ return k == 0 ? &EV0 : k == 1 ? &EV1 : &EV2; }
#else
static inline myth_running_env_t verif_ev(int k){ return k == 0 ? &EV0 : k == 1 ? &EV1 : k == 2 ? &EV2 : &EV3; }
#endif
static inline int verif_tid_of_ctx(myth_context_t c){
  return c == &TD0.context ? 0 : c == &TD1.context ? 1 :
#if VN > 2
         c == &TD2.context ? 2 :
#endif
#if VN > 3
         c == &TD3.context ? 3 :
#endif
         -1;
}
static inline int verif_tid_of_th(void *th){
  return th == (void*)&TD0 ? 0 : th == (void*)&TD1 ? 1 :
#if VN > 2
         th == (void*)&TD2 ? 2 :
#endif
#if VN > 3
         th == (void*)&TD3 ? 3 :
#endif
         -1;
}
#if !VERIF_RICH
/* private worker per logical thread */
myth_running_env_t verif_env_of_tid(int t){ return verif_ev(t); }
static inline void verif_make_runnable(void *q, struct myth_thread *th){
  int k = verif_tid_of_th(th);
  (void)q;
  verif_check(k >= 0 && k < VN, "model: only thread descriptors are made runnable");
  verif_check(verif_ctx_saved[k], "a thread is made runnable only after its context has been saved");
  verif_check(!verif_wake[k], "a thread is made runnable at most once per suspension (no double resume)");
  verif_wake[k] = 1; verif_nrun[k]++;
}
static inline struct myth_thread *verif_pop(void *q){ (void)q; return 0; }
static inline void verif_switch_to(myth_context_t to, int me){
  int k = verif_tid_of_ctx(to);
  (void)me;
  if (k >= 0) {   /* direct switch to a thread (e.g. the joiner at thread exit) */
    verif_check(verif_ctx_saved[k], "a context is resumed only after it has been saved");
    verif_check(!verif_wake[k], "a context is resumed at most once per suspension (no double resume)");
    verif_wake[k] = 2; verif_nrun[k]++;
  }
}
static inline void verif_after_resume(int me){
  verif_wake[me] = 0; verif_ctx_saved[me] = 0;
  /* branch on the index: never write through a pointer selected by a symbolic chain (DESIGN 2.3) */
  if (me == 0) { EV0.this_thread = &TD0; TD0.env = &EV0; }
#if VN == 2
  else { EV1.this_thread = &TD1; TD1.env = &EV1; }
#elif VN == 3
  else if (me == 1) { EV1.this_thread = &TD1; TD1.env = &EV1; }
  else { EV2.this_thread = &TD2; TD2.env = &EV2; }
#else
  else if (me == 1) { EV1.this_thread = &TD1; TD1.env = &EV1; }
  else if (me == 2) { EV2.this_thread = &TD2; TD2.env = &EV2; }
  else { EV3.this_thread = &TD3; TD3.env = &EV3; }
#endif
}
static inline int verif_is_create_cb(void *fn){ (void)fn; return 0; }
static inline void verif_spawn(myth_context_t to, void *a1, void *a2, void *a3){ (void)to; (void)a1; (void)a2; (void)a3; }
static inline void verif_model_init(void){
  EV0.rank = 0; EV0.this_thread = &TD0; TD0.env = &EV0;
  EV1.rank = 1; EV1.this_thread = &TD1; TD1.env = &EV1;
#if VN > 2
  EV2.rank = 2; EV2.this_thread = &TD2; TD2.env = &EV2;
#endif
#if VN > 3
  EV3.rank = 3; EV3.this_thread = &TD3; TD3.env = &EV3;
#endif
}
#endif
#endif
