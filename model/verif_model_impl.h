/* second half of the model: needs the full struct definitions, so it is included
 * after the real *_func.h headers. */
#ifndef VERIF_MODEL_IMPL_H
#define VERIF_MODEL_IMPL_H
struct myth_thread TD0, TD1;
struct myth_running_env EV0, EV1;
#if VN > 2
struct myth_thread TD2; struct myth_running_env EV2;
#endif
#if VN > 3
struct myth_thread TD3; struct myth_running_env EV3;
#endif
myth_running_env_t g_envs;
int g_envs_sz = VN;
__thread int g_worker_rank;
volatile int verif_ctx_saved[4];
volatile int verif_wake[4];
volatile int verif_started[4];
volatile int verif_nrun[4];
volatile int verif_go[4]; volatile int verif_rq[4]; volatile int verif_env_of[4]; volatile int verif_env_busy[4];
volatile int verif_handoff_env[4]; volatile int verif_entry_kind[4]; volatile int verif_on_own_stack[4];
void *verif_spawn_a1[4], *verif_spawn_a2[4], *verif_spawn_a3[4];

void verif_m_save(int me){
  verif_check(!verif_ctx_saved[me], "model: a context is saved only while its thread runs");
  verif_ctx_saved[me] = 1; verif_on_own_stack[me] = 0;
}
void verif_m_leave_stack(int me){ verif_on_own_stack[me] = 0; }
#if VN == 2
static inline struct myth_thread *verif_td(int k){ return k == 0 ? &TD0 : &TD1; }
#elif VN == 3
static inline struct myth_thread *verif_td(int k){ return k == 0 ? &TD0 : k == 1 ? &TD1 : &TD2; }
#else
static inline struct myth_thread *verif_td(int k){ return k == 0 ? &TD0 : k == 1 ? &TD1 : k == 2 ? &TD2 : &TD3; }
#endif
#if VN == 2
static inline myth_running_env_t verif_ev(int k){ return k == 0 ? &EV0 : &EV1; }
#elif VN == 3
static inline myth_running_env_t verif_ev(int k){ return k == 0 ? &EV0 : k == 1 ? &EV1 : &EV2; }
#else
static inline myth_running_env_t verif_ev(int k){ return k == 0 ? &EV0 : k == 1 ? &EV1 : k == 2 ? &EV2 : &EV3; }
#endif
static inline int verif_tid_of_ctx(myth_context_t c){
  return c == &TD0.context ? 0 : c == &TD1.context ? 1 :
#if VN > 2
         c == &TD2.context ? 2 :
#endif
#if VN > 3
         c == &TD3.context ? 3 :
#endif
         -1;
}
static inline int verif_tid_of_th(void *th){
  return th == (void*)&TD0 ? 0 : th == (void*)&TD1 ? 1 :
#if VN > 2
         th == (void*)&TD2 ? 2 :
#endif
#if VN > 3
         th == (void*)&TD3 ? 3 :
#endif
         -1;
}
#if !VERIF_RICH
/* private worker per logical thread */
myth_running_env_t verif_env_of_tid(int t){ return verif_ev(t); }
void verif_make_runnable(void *q, struct myth_thread *th){
  int k = verif_tid_of_th(th);
  (void)q;
  verif_check(k >= 0 && k < VN, "model: only thread descriptors are made runnable");
  verif_check(verif_ctx_saved[k], "a thread is made runnable only after its context has been saved");
  verif_check(!verif_wake[k], "a thread is made runnable at most once per suspension (no double resume)");
  verif_wake[k] = 1; verif_nrun[k]++;
}
struct myth_thread *verif_pop(void *q){ (void)q; return 0; }
void verif_switch_to(myth_context_t to, int me){
  int k = verif_tid_of_ctx(to);
  (void)me;
  if (k >= 0) {   /* direct switch to a thread (e.g. the joiner at thread exit) */
    verif_check(verif_ctx_saved[k], "a context is resumed only after it has been saved");
    verif_check(!verif_wake[k], "a context is resumed at most once per suspension (no double resume)");
    verif_wake[k] = 2; verif_nrun[k]++;
  }
}
void verif_after_resume(int me){
  verif_wake[me] = 0; verif_ctx_saved[me] = 0; verif_on_own_stack[me] = 1;
  /* branch on the index: never write through a pointer selected by a symbolic chain (DESIGN 2.3) */
  if (me == 0) { EV0.this_thread = &TD0; TD0.env = &EV0; }
#if VN == 2
  else { EV1.this_thread = &TD1; TD1.env = &EV1; }
#elif VN == 3
  else if (me == 1) { EV1.this_thread = &TD1; TD1.env = &EV1; }
  else { EV2.this_thread = &TD2; TD2.env = &EV2; }
#else
  else if (me == 1) { EV1.this_thread = &TD1; TD1.env = &EV1; }
  else if (me == 2) { EV2.this_thread = &TD2; TD2.env = &EV2; }
  else { EV3.this_thread = &TD3; TD3.env = &EV3; }
#endif
}
static inline int verif_is_create_cb(void *fn){ (void)fn; return 0; }
void verif_spawn(myth_context_t to, int me, void *a1, void *a2, void *a3){ (void)to; (void)me; (void)a1; (void)a2; (void)a3; }
static inline void verif_model_init(void){
  EV0.rank = 0; EV0.this_thread = &TD0; TD0.env = &EV0;
  EV1.rank = 1; EV1.this_thread = &TD1; TD1.env = &EV1;
#if VN > 2
  EV2.rank = 2; EV2.this_thread = &TD2; TD2.env = &EV2;
#endif
#if VN > 3
  EV3.rank = 3; EV3.this_thread = &TD3; TD3.env = &EV3;
#endif
}
#else   /* ------------------------------------------------------------------ VERIF_RICH */
static inline int verif_env_index(void *q){
  return q == (void*)&EV0.runnable_q ? 0 : q == (void*)&EV1.runnable_q ? 1 :
#if VN > 2
         q == (void*)&EV2.runnable_q ? 2 :
#endif
#if VN > 3
         q == (void*)&EV3.runnable_q ? 3 :
#endif
         -1;
}
static inline int verif_env_of_sched_ctx(myth_context_t c){
  return c == &EV0.sched.context ? 0 : c == &EV1.sched.context ? 1 :
#if VN > 2
         c == &EV2.sched.context ? 2 :
#endif
#if VN > 3
         c == &EV3.sched.context ? 3 :
#endif
         -1;
}
myth_running_env_t verif_env_of_tid(int t){ return verif_ev(verif_env_of[t]); }
void verif_make_runnable(void *q, struct myth_thread *th){
  int k = verif_tid_of_th(th); int e = verif_env_index(q);
  verif_check(k >= 0 && k < VN && e >= 0, "model: only thread descriptors are made runnable, on a worker's own queue");
  verif_check(verif_ctx_saved[k], "a thread is made runnable only after its context has been saved");
  verif_check(!verif_wake[k], "a thread is made runnable at most once per suspension (no double resume)");
  verif_wake[k] = 1; verif_rq[k] = e; verif_nrun[k]++; verif_go[k] = 1;
}
/* owner-side pop: nondeterministically nothing (already stolen / empty) or one of the threads queued on this worker */
struct myth_thread *verif_pop(void *q){
  int e = verif_env_index(q); long c = nondet_long();
#define VERIF_POP_CAND(k) if (c == k && verif_wake[k] == 1 && verif_rq[k] == e) { verif_wake[k] = 3; verif_go[k] = 0; return verif_td(k); }   /* popped: only the popper may switch to it */
  VERIF_POP_CAND(0) VERIF_POP_CAND(1)
#if VN > 2
  VERIF_POP_CAND(2)
#endif
#if VN > 3
  VERIF_POP_CAND(3)
#endif
  return 0;
}
void verif_switch_to(myth_context_t to, int me){
  int k = verif_tid_of_ctx(to); int e = verif_env_of[me];
  if (k >= 0) {   /* the worker is handed directly to thread k */
    verif_check(verif_ctx_saved[k], "a context is resumed only after it has been saved");
    verif_check(verif_wake[k] == 3 || verif_wake[k] == 0, "a context is resumed at most once per suspension (no double resume)");
    verif_check(!verif_done(k), "a finished thread is never resumed");
    if (verif_wake[k] == 0) verif_nrun[k]++;
    verif_handoff_env[k] = e; verif_wake[k] = 2; verif_go[k] = 1;
  } else {        /* back to this worker's scheduler: the worker becomes idle */
    verif_check(verif_env_of_sched_ctx(to) == e, "model: a thread switches to the scheduler context of the worker it runs on");
    verif_env_busy[e] = 0;
  }
  verif_env_of[me] = -1;
}
void verif_take_env(int me, int e){
  verif_env_of[me] = e; verif_env_busy[e] = 1;
}
void verif_after_resume(int me){
  int e;
  if (verif_wake[me] == 2) e = verif_handoff_env[me];
  else {          /* stolen (or picked by the idle owner): runs on the lowest-numbered idle worker, set up as myth_sched_loop does */
    e = !verif_env_busy[0] ? 0 : !verif_env_busy[1] ? 1 :
#if VN > 2
        !verif_env_busy[2] ? 2 :
#endif
        VN - 1;
#if VERIF_STEAL_ANY    /* any idle worker may be the one that steals / pops the thread (solver's choice), not just the lowest-numbered */
    { long c_ = nondet_long();
      if (c_ == 0 && !verif_env_busy[0]) e = 0; else if (c_ == 1 && !verif_env_busy[1]) e = 1;
#if VN > 2
      else if (c_ == 2 && !verif_env_busy[2]) e = 2;
#endif
    }
#endif
    verif_check(!verif_env_busy[e], "model: an idle worker exists for every runnable thread");
    if (e == 0) { EV0.this_thread = verif_td(me); } else if (e == 1) { EV1.this_thread = verif_td(me); }
#if VN > 2
    else if (e == 2) { EV2.this_thread = verif_td(me); }
#endif
#if VN > 3
    else { EV3.this_thread = verif_td(me); }
#endif
    if (me == 0) TD0.env = verif_ev(e); else if (me == 1) TD1.env = verif_ev(e);
#if VN > 2
    else if (me == 2) TD2.env = verif_ev(e);
#endif
#if VN > 3
    else TD3.env = verif_ev(e);
#endif
  }
  verif_wake[me] = 0; verif_go[me] = 0; verif_ctx_saved[me] = 0; verif_on_own_stack[me] = 1;
  verif_take_env(me, e);
}
static void myth_entry_point(void);
void verif_m_make_context(myth_context_t ctx, int kind, void *func, void *stack){
  int k = verif_tid_of_ctx(ctx);
  verif_check(k >= 0 && !verif_started[k] && stack != 0, "model: a fresh context is made for a thread that has not started, on a real stack");
  if (kind == 2) verif_check(func == (void*)myth_entry_point, "model: parent-first threads start in myth_entry_point");
  verif_entry_kind[k] = kind; verif_ctx_saved[k] = 1;
}
static inline int verif_is_create_cb(void *fn){ return fn == (void*)myth_create_1; }
/* child-first creation: the fresh child context takes over the creator's worker and runs the real myth_create_1 */
void verif_spawn(myth_context_t to, int me, void *a1, void *a2, void *a3){
  int c = verif_tid_of_ctx(to); int e = verif_env_of[me];
  verif_check(c >= 0 && c < VN && verif_entry_kind[c] == 1 && !verif_started[c], "model: child-first creation switches to a fresh context");
  verif_spawn_a1[c] = a1; verif_spawn_a2[c] = a2; verif_spawn_a3[c] = a3;
  verif_started[c] = 1; verif_handoff_env[c] = e; verif_wake[c] = 2; verif_go[c] = 1;
  verif_env_of[me] = -1;
}
/* body of a child logical thread */
void verif_m_child_start(int k){           /* atomic with the parking point before it */
  if (verif_entry_kind[k] == 1) { verif_wake[k] = 0; verif_go[k] = 0; verif_on_own_stack[k] = 1; verif_take_env(k, verif_handoff_env[k]); }
  else { verif_started[k] = 1; verif_after_resume(k); }
}
static inline void verif_child_main(int k){
  verif_park(&verif_go[k]);
  verif_m_child_start(k);
  if (verif_entry_kind[k] == 1) myth_create_1(verif_spawn_a1[k], verif_spawn_a2[k], verif_spawn_a3[k]);
  else myth_entry_point();
}
static inline void verif_model_init(void){
  EV0.rank = 0; EV1.rank = 1;
#if VN > 2
  EV2.rank = 2;
#endif
#if VN > 3
  EV3.rank = 3;
#endif
  verif_env_of[1] = -1; verif_env_of[2] = -1; verif_env_of[3] = -1;
  /* logical thread 0 is the running root thread on worker 0 */
  EV0.this_thread = &TD0; TD0.env = &EV0; verif_env_of[0] = 0; verif_env_busy[0] = 1; verif_on_own_stack[0] = 1; verif_started[0] = 1;
}
#endif
#endif
