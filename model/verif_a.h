/* helpers for engine-A harnesses (cbmc directly on the real C) */
#ifndef VERIF_A_H
#define VERIF_A_H
#ifndef VERIF_NATIVE
long nondet_long(void);
long VERIF_NDV;
#define VERIF_CHOICE() (VERIF_NDV = nondet_long())
#endif
#define ASSUME(c) __CPROVER_assume(c)
#define CHECK(c, msg) __CPROVER_assert((c), "VERIF " msg)
#define WITNESS() __CPROVER_assert(0, "WITNESS end of harness reachable")
#define WITNESS_IF(c) __CPROVER_assert(!(c), "WITNESS end of harness reachable")
#endif
