/* Harness-side model of the worker / context-switch layer used by all engine-B
 * protocol harnesses (DESIGN.md section 4.2).  Everything included from /repo
 * below is the REAL code; only the four context-switch macros, the run queue
 * and the "current worker" accessor are models.
 *
 * VN            number of logical threads (<= 4)
 * VERIF_RICH    0: every logical thread owns a private worker, queue pop
 *                  returns "empty" (blocked thread always falls to the scheduler)
 *               1: workers are handed over (spawn, direct switch to a popped
 *                  thread), a runnable thread is either popped by the owner
 *                  or "stolen" (resumes on a free worker)
 */
#ifndef VERIF_MODEL_H
#define VERIF_MODEL_H
#ifndef VN
#define VN 2
#endif
#ifndef VERIF_RICH
#define VERIF_RICH 0
#endif
#include "myth_config.h"
#include "myth_context.h"
#undef MYTH_CTX_CALLBACK
#define MYTH_CTX_CALLBACK static inline __attribute__((always_inline))
#if VERIF_RICH
/* fresh contexts: the real myth_make_context_* (stack-pointer arithmetic, verified in C03) are renamed away and modelled */
#define myth_make_context_empty real_myth_make_context_empty
#define myth_make_context_voidcall real_myth_make_context_voidcall
#endif
#include "myth_context_func.h"
#if VERIF_RICH
#undef myth_make_context_empty
#undef myth_make_context_voidcall
void verif_m_make_context(myth_context_t ctx, int kind, void *func, void *stack);
static inline void myth_make_context_empty(myth_context_t ctx, void *stack, size_t stacksize){ (void)stacksize; verif_m_make_context(ctx, 1, 0, stack); }
static inline void myth_make_context_voidcall(myth_context_t ctx, void_func_t func, void *stack, size_t stacksize){ (void)stacksize; verif_m_make_context(ctx, 2, (void*)func, stack); }
#endif
#undef myth_swap_context_withcall
#undef myth_swap_context
#undef myth_set_context
#undef myth_set_context_withcall

void verif_assert(int c);
void verif_check(int c, const char *msg);
void verif_witness(int c);
void verif_park(volatile int *flag);
void verif_stop(void);
void verif_yield(void);
int verif_all_done(void);
int verif_done(int t);
int verif_cur_tid(void);
long nondet_long(void);

/* ghost state of the model; volatile so that every access is a visible point */
extern volatile int verif_ctx_saved[4];   /* context of logical thread k is completely saved        */
extern volatile int verif_wake[4];        /* 0 not runnable; 1 in a run queue; 2 worker handed over  */
extern volatile int verif_started[4];
extern volatile int verif_nrun[4];
extern volatile int verif_go[4];          /* rich model: thread k may (re)start: it is queued (stealable) or was handed a worker */
extern volatile int verif_rq[4];          /* rich model: worker index whose run queue holds thread k */
extern volatile int verif_env_of[4];      /* rich model: worker index thread k currently runs on, -1 if none */
extern volatile int verif_env_busy[4];
extern volatile int verif_handoff_env[4];
extern volatile int verif_entry_kind[4];  /* 1: fresh child-first context, 2: fresh parent-first context */
extern volatile int verif_on_own_stack[4];/* thread k currently executes on its own stack (cleared while a switch callback runs) */
extern void *verif_spawn_a1[4], *verif_spawn_a2[4], *verif_spawn_a3[4];          /* how many times thread k has been made runnable / handed a worker */     /* spawned child may start                                 */

static inline int verif_tid_of_ctx(myth_context_t c);
static inline int verif_tid_of_th(void *th);

/* ---- run queue: ghost, replaces src/myth_wsqueue_func.h (verified on its own in C02) ---- */
#define MYTH_WSQUEUE_FUNC_H_
#include "myth_wsqueue.h"
void verif_make_runnable(void *q, struct myth_thread *th);
struct myth_thread *verif_pop(void *q);
void verif_m_save(int me); void verif_m_leave_stack(int me); void verif_m_child_start(int k);
static inline void myth_queue_init(myth_thread_queue_t q){ (void)q; }
static inline void myth_queue_fini(myth_thread_queue_t q){ (void)q; }
static inline void myth_queue_clear(myth_thread_queue_t q){ (void)q; }
static inline void myth_queue_push(myth_thread_queue_t q,struct myth_thread *th){ verif_make_runnable(q, th); }
static inline struct myth_thread* myth_queue_pop(myth_thread_queue_t q){ return verif_pop(q); }
static inline void myth_queue_put(myth_thread_queue_t q,struct myth_thread * th){ verif_make_runnable(q, th); }
static inline struct myth_thread* myth_queue_take(myth_thread_queue_t q){ (void)q; return 0; }
static inline int myth_queue_trypass(myth_thread_queue_t q,struct myth_thread* th){ verif_make_runnable(q, th); return 1; }
static inline void myth_queue_pass(myth_thread_queue_t q,struct myth_thread* th){ verif_make_runnable(q, th); }
static inline int myth_queue_is_operating(myth_thread_queue_t q){ (void)q; return 0; }
static inline struct myth_thread* myth_queue_peek(myth_thread_queue_t q){ (void)q; return 0; }

/* ---- context switch macros ---- */
void verif_switch_to(myth_context_t to, int me);
void verif_after_resume(int me);
static inline int verif_is_create_cb(void *fn);
void verif_spawn(myth_context_t to, int me, void *a1, void *a2, void *a3);
#if VERIF_RICH
#define VERIF_PARK_FLAG(k) (&verif_go[k])
#else
#define VERIF_PARK_FLAG(k) (&verif_wake[k])
#endif

#define myth_swap_context_withcall(from,to,fn,a1,a2,a3) do { \
    int me_ = verif_tid_of_ctx(from); \
    verif_m_save(me_); \
    if (verif_is_create_cb((void*)(fn))) { \
      verif_spawn((to), me_, (void*)(a1), (void*)(a2), (void*)(a3)); \
    } else { \
      fn((void*)(a1),(void*)(a2),(void*)(a3)); \
      verif_switch_to((to), me_); \
    } \
    verif_park(VERIF_PARK_FLAG(me_)); \
    verif_after_resume(me_); \
  } while (0)
#define myth_swap_context(from,to) do { \
    int me_ = verif_tid_of_ctx(from); \
    verif_m_save(me_); \
    verif_switch_to((to), me_); \
    verif_park(VERIF_PARK_FLAG(me_)); \
    verif_after_resume(me_); \
  } while (0)
#define myth_set_context(to) do { verif_switch_to((to), verif_cur_tid()); verif_stop(); } while (0)
#define myth_set_context_withcall(to,fn,a1,a2,a3) do { \
    verif_m_leave_stack(verif_cur_tid()); \
    fn((void*)(a1),(void*)(a2),(void*)(a3)); \
    verif_switch_to((to), verif_cur_tid()); \
    verif_stop(); \
  } while (0)

#include "myth_thread.h"
#include "myth_worker.h"
#endif
