#!/bin/sh
# tools/mut.sh <name> <property> [check args...]: apply /verif/selftest/<name>.diff to the scratch copy /var/tmp/mrepo,
# run the property's check against it (VERIF_REPO), restore the copy. Log: /var/tmp/logs/mut.<name>.log
n=$1; p=$2; shift; shift
M=/var/tmp/mrepo
cd $M && git checkout -q -- . && git apply /verif/selftest/$n.diff || { echo "cannot apply $n"; exit 2; }
cd /verif && VERIF_REPO=$M VERIF_NOEVIDENCE=1 ./check $p "$@" > /var/tmp/logs/mut.$n.log 2>&1
rc=$?
cd $M && git checkout -q -- .
echo "mutant $n on $p: exit $rc  $(grep -c '^VIOLATION' /var/tmp/logs/mut.$n.log) violation line(s)"
