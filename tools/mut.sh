#!/bin/sh
# tools/mut.sh <name> <property> [check args...]: copy /repo's current tree to the scratch directory /var/tmp/mrepo, apply
# /verif/selftest/<name>.diff there, run the property's check against it (VERIF_REPO), report. Log: /var/tmp/logs/mut.<name>.log
n=$1; p=$2; shift; shift
M=/var/tmp/mrepo.$$
mkdir -p $M && rsync -a --delete --exclude '.git' --exclude '.libs' --exclude '*.o' --exclude '*.lo' --exclude '*.la' --exclude 'tests' --exclude 'examples' /repo/ $M/
(cd $M && patch -p1 -s < /verif/selftest/$n.diff) || { echo "cannot apply $n"; rm -rf $M; exit 2; }
cd /verif && VERIF_REPO=$M VERIF_NOEVIDENCE=1 ./check $p "$@" > /var/tmp/logs/mut.$n.log 2>&1
rc=$?
rm -rf $M
echo "mutant $n on $p: exit $rc  $(grep -c '^VIOLATION' /var/tmp/logs/mut.$n.log) violation line(s)"
