"""texts for MANIFEST.json"""
B_NOTE = ('Trusted: clang-14 IR generation, the irseq translator (validated per run by WITNESS twins and native replay of counterexamples), cbmc 6.11 + minisat. '
          'Modelled, not verified here: context-switch macros, run queue, current-worker accessor, spinlock as atomic blocking lock (see evidence assumptions). Bounds: threads/rounds per job in the evidence file.')
A_NOTE = ('Trusted: gcc -E preprocessing, goto-cc/cbmc 6.11 + SAT back end. Environment functions are nondeterministic stubs listed in the evidence file; allocation never fails. Bounds (unwinding, sizes) per job in the evidence file.')
def b(text, ref, tech='bounded symbolic model checking (cbmc/SAT) of the real code sequentialised from LLVM IR; schedule = solver variables'):
    return dict(engine='irseq', text=text, design_ref=ref, note=B_NOTE, technique=tech)
def a(text, ref, tech='bounded symbolic execution of the real C code with cbmc (SAT), symbolic inputs'):
    return dict(engine='cbmc-direct', text=text, design_ref=ref, note=A_NOTE, technique=tech)
META = {
 'C04': b('For 2-3 lockers and every interleaving within R rounds the solver shows: occupancy never exceeds 1, no deadlock/lost wake-up, trylock non-blocking and justified, blocked locker is parked. Bounded model checking is the right level: the race windows are single points in the schedule space the solver searches exhaustively within the bound.', '5.C04'),
}
NOT_APPLICABLE = {}
