#!/usr/bin/env python3
"""regenerate /verif/MANIFEST.json from engines/specs.py (claimed properties) and tools/meta.py texts"""
import json, os, sys
V = os.path.dirname(os.path.dirname(os.path.abspath(__file__)))
sys.path.insert(0, os.path.join(V, 'engines')); sys.path.insert(0, os.path.join(V, 'tools'))
import specs, meta
props = [json.loads(l)['id'] for l in open(os.path.join(V, 'properties.jsonl'))]
checks = []; na = []
for pid in props:
    if pid in specs.SPECS and pid not in meta.NOT_APPLICABLE:
        m = meta.META[pid]
        checks.append(dict(property_id=pid, quick_cmd='./check %s --tier quick' % pid, thorough_cmd='./check %s --tier thorough' % pid,
                           evidence_file='evidence/%s.json' % pid, replay_cmd_template='./check %s --replay {path}' % pid,
                           engine=m['engine'], level_claimed=dict(category=m.get('category', 'model_checking'), text=m['text'], design_ref=m['design_ref']),
                           level_note=m['note'], technique=m['technique']))
    else:
        na.append(dict(property_id=pid, reason=meta.NOT_APPLICABLE.get(pid, 'no check built yet in this round (work in progress); see DESIGN.md section 5')))
man = dict(version=1,
           setup_cmd='true',
           hooks=dict(guard='MYTH_VERIF', enable='not used: every substitution happens in the harness translation unit / IR pipeline outside /repo (DESIGN.md section 7)',
                      baseline_off_cmd='cd /repo && make -j8 >/dev/null 2>&1 && make -C tests check', source_commits=[], add_only=True),
           engines=[dict(name='cbmc-direct', path='engines/vlib.py', serves_properties=[p for p in props if p in specs.SPECS], kind_free_text='goto-cc on harness TUs that #include the real sources; cbmc SAT back end; symbolic inputs'),
                    dict(name='irseq', path='engines/irseq.py', serves_properties=[p for p in props if p in specs.SPECS], kind_free_text='clang IR of the real headers -> own sequentialising translator (bounded round-robin, optional x86-TSO store buffers) -> cbmc'),
                    dict(name='asmsmt', path='engines/asmsmt.py', serves_properties=['C03'], kind_free_text='z3 symbolic execution of the real inline-asm context switch templates')],
           checks=checks, not_applicable=na,
           notes='All checks are bounded symbolic (SAT/SMT) queries over the real code regenerated from /repo on every run; bounds are in each evidence file. Exit codes: 0 holds, 1 VIOLATION, 2 check broken (front-end/translator/vacuity), 3 undecided (solver budget).')
json.dump(man, open(os.path.join(V, 'MANIFEST.json'), 'w'), indent=1)
print('claimed:', [c['property_id'] for c in checks]); print('not_applicable:', [n['property_id'] for n in na])
