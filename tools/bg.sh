#!/bin/sh
# tools/bg.sh <property> [tier] [extra args]: run a check detached, log to /var/tmp/logs/<property>.<tier>.log
p=$1; t=${2:-quick}; shift; shift 2>/dev/null
mkdir -p /var/tmp/logs
cd /verif && setsid nohup ./check $p --tier $t "$@" > /var/tmp/logs/$p.$t.log 2>&1 &
