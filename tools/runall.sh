#!/bin/sh
# tools/runall.sh <tier> [ids...]: run checks one after another (each uses all cores), log to /var/tmp/logs/all.<tier>.log
t=${1:-quick}; shift
ids="$@"; [ -z "$ids" ] && ids="C20 C16 C14 C08 C18 C12 C11 C03 C04 C07 C06 C05 C09 C02 C10 C15 C17 C01 C13"
cd /verif
for p in $ids; do
  s=$(date +%s)
  ./check $p --tier $t > /var/tmp/logs/$p.$t.log 2>&1
  rc=$?
  echo "$p $t exit=$rc wall=$(( $(date +%s) - s ))s" >> /var/tmp/logs/all.$t.log
done
