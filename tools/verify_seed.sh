#!/bin/sh
# tools/verify_seed.sh <tag>: confirm a sub-agent's seeded change in its scratch worktree /tmp/seed_<tag>:
# compiles, existing suite passes, demonstration fails with the change and passes without it.  Result -> /verif/seeded/<tag>/verify.log
t=$1; d=/tmp/seed_$t; o=/verif/seeded/$t; mkdir -p $o
cp $d/SEED/patch.diff $o/patch.diff 2>/dev/null
for f in $d/SEED/*; do case "$f" in *.log|*/demo|*/patch.diff) ;; *) cp -r "$f" $o/ 2>/dev/null;; esac; done
{
cd $d && git checkout -q -- src include 2>/dev/null; git apply SEED/patch.diff || { echo "PATCH DOES NOT APPLY"; exit 1; }
echo "== with change: build"; make -j8 > /dev/null 2>&1; echo "make rc=$?"
echo "== with change: test suite"; make -C tests check -j8 2>&1 | grep -E "^# (TOTAL|PASS|FAIL|ERROR)" | tr '\n' ' '; echo
echo "== with change: demonstration"; (cd SEED && timeout 900 sh ./run_demo.sh > /tmp/seed_$t.demo1.log 2>&1; echo "demo rc=$?"); tail -5 /tmp/seed_$t.demo1.log
git apply -R SEED/patch.diff; make -j8 > /dev/null 2>&1
echo "== without change: demonstration"; (cd SEED && timeout 900 sh ./run_demo.sh > /tmp/seed_$t.demo0.log 2>&1; echo "demo rc=$?"); tail -3 /tmp/seed_$t.demo0.log
} > $o/verify.log 2>&1
grep -E "rc=|TOTAL" $o/verify.log | tr '\n' ' '; echo
