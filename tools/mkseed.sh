#!/bin/sh
# tools/mkseed.sh <tag>: scratch git worktree of /repo with the build configuration copied in, for a mutation sub-agent
t=$1; d=/tmp/seed_$t
git -C /repo worktree add --detach $d HEAD >/dev/null 2>&1 || exit 1
rsync -a --ignore-existing --exclude .git /repo/ $d/
mkdir -p $d/SEED
echo $d
