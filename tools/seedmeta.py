#!/usr/bin/env python3
"""tools/seedmeta.py <tag> <property> <needs> <detected_by> : write /verif/seeded/<tag>/meta.json from verify.log + arguments"""
import sys, json, os, re
tag, prop, needs, detected = sys.argv[1:5]
d = '/verif/seeded/' + tag
log = open(d + '/verify.log').read() if os.path.exists(d + '/verify.log') else ''
m = dict(id=tag, property=prop, origin='independent sub-agent given only the property text and a scratch worktree', needs_to_manifest=needs,
         confirmed=dict(compiles='make rc=0' in log, suite_passes_with_change=bool(re.search(r'PASS:\s+257', log)) and bool(re.search(r'FAIL:\s+0', log)),
                        demo_fails_with_change=bool(re.search(r'with change: demonstration\s*\n(?:.*\n)*?demo rc=[1-9]', log)),
                        demo_passes_without_change=bool(re.search(r'without change: demonstration\s*\n(?:.*\n)*?demo rc=0', log)),
                        how='tools/verify_seed.sh %s (scratch worktree /tmp/seed_%s or /tmp/s2_%s for the round-2 tags, removed afterwards); see verify.log' % (tag, tag, tag.split("_")[0])),
         detected_by=detected, files=sorted(os.listdir(d)))
json.dump(m, open(d + '/meta.json', 'w'), indent=1); print(json.dumps(m['confirmed']))
